'''Entry point behind /verif/check.

  check <ID> [--tier quick|thorough] [--replay FILE] [--shards N]

exit 0  the property held on everything explored (KNOWN-FINDING lines allowed)
exit 1  prints "VIOLATION property=<id> replay=<path>"
exit 2  harness error (wrong import path, crashed shard, ...)
'''

import argparse
import importlib
import json
import os
import subprocess
import sys
import tempfile
import time

from . import core

# evidence and new replays go here (mutation runs point it elsewhere)
OUT = os.environ.get('VERIF_OUT', core.VERIF)


def _env():
    env = dict(os.environ)
    env['PYTHONPATH'] = os.pathsep.join([core.REPO_PY, core.VERIF])
    env['PYTHONDONTWRITEBYTECODE'] = '1'
    env['PYTHONHASHSEED'] = '0'
    env.setdefault('USERNAME', 'verif')
    # engines under test must come from the synthetic packages only
    for k in list(env):
        if k.startswith('DAWGIE_'):
            del env[k]
    return env


def save_replay(pid, part, case, bucket, detail):
    d = os.path.join(OUT, 'replays')
    os.makedirs(d, exist_ok=True)
    fn = os.path.join(d, f'{pid}-{core.case_hash([part, case])}.json')
    with open(fn, 'wt', encoding='utf-8') as f:
        json.dump(
            {
                'property': pid,
                'part': part,
                'bucket': bucket,
                'detail': detail,
                'case': case,
            },
            f,
            indent=1,
            default=str,
        )
    return fn


def replay(pid, fn):
    from . import world  # pylint: disable=import-outside-toplevel

    world.boot()
    mod = importlib.import_module(f'vf.props.{pid.lower()}')
    with open(fn, 'rt', encoding='utf-8') as f:
        rep = json.load(f)
    parts = {p.name: p for p in mod.parts('quick')}
    part = parts[rep['part']]
    stats = core.Stats(pid)
    try:
        out = core.run_one(part, rep['case'], stats, counting=False)
    except core.Violation:
        for b, d in stats.failure['all']:
            print(f'FAIL {b}: {d}')
        print(f'VIOLATION property={pid} replay={os.path.abspath(fn)}')
        return 1
    for b, n in stats.known.items():
        kf = core.known_finding(pid, b)
        print(f'KNOWN-FINDING: property={pid} {kf["what"]} [{b}]')
    print(f'replay ok: labels={out.labels} nontrivial={out.nontrivial}')
    return 0


def main(argv=None):
    ap = argparse.ArgumentParser()
    ap.add_argument('pid')
    ap.add_argument('--tier', default=os.environ.get('VERIF_TIER', 'quick'))
    ap.add_argument('--replay', default=None)
    ap.add_argument('--shards', type=int, default=None)
    args = ap.parse_args(argv)
    pid = args.pid.upper()
    tier = args.tier if args.tier in ('quick', 'thorough') else 'quick'
    seed = int(os.environ.get('VERIF_SEED', '1') or 1)
    if args.replay:
        return replay(pid, args.replay)

    t0 = time.time()
    nshards = args.shards or int(os.environ.get('VERIF_SHARDS', '0') or 0)
    if nshards <= 0:
        nshards = min(os.cpu_count() or 4, 16 if tier == 'thorough' else 8)
    env = _env()
    procs = []
    with tempfile.TemporaryDirectory(prefix='dawgie-verif-run-') as td:
        for i in range(nshards):
            out = os.path.join(td, f'shard{i}.json')
            log = open(  # pylint: disable=consider-using-with
                os.path.join(td, f'shard{i}.log'), 'wb'
            )
            p = subprocess.Popen(  # pylint: disable=consider-using-with
                [
                    sys.executable,
                    '-m',
                    'vf.shard',
                    pid,
                    tier,
                    str(seed),
                    str(i),
                    str(nshards),
                    out,
                ],
                cwd=core.VERIF,
                env=env,
                stdout=log,
                stderr=subprocess.STDOUT,
            )
            procs.append((p, out, log))
        shards = []
        errors = []
        for i, (p, out, log) in enumerate(procs):
            p.wait()
            log.close()
            res = None
            if os.path.isfile(out):
                with open(out, 'rt', encoding='utf-8') as f:
                    res = json.load(f)
            if res is None or not res.get('ok'):
                with open(log.name, 'rb') as f:
                    tail = f.read()[-3000:].decode(errors='replace')
                errors.append(
                    f'shard {i} rc={p.returncode}: '
                    + (res or {}).get('error', '')
                    + tail
                )
            else:
                shards.append(res)
    if errors:
        print(f'HARNESS-ERROR property={pid}')
        for e in errors[:3]:
            print(e)
        return 2

    mod = importlib.import_module(f'vf.props.{pid.lower()}')
    merged = {}
    known = {}
    failures = []
    time_capped = False
    for res in shards:
        time_capped |= bool(res.get('time_capped'))
        for b, n in res.get('known', {}).items():
            known[b] = known.get(b, 0) + n
        if res.get('failure'):
            failures.append(res['failure'])
        for name, p in res['parts'].items():
            m = merged.setdefault(
                name,
                {
                    'evaluations': 0,
                    'nontrivial': set(),
                    'labels': {},
                    'samples': [],
                    'exhaustive_done': [],
                },
            )
            m['evaluations'] += p['evaluations']
            m['nontrivial'].update(p['nontrivial'])
            for k, v in p['labels'].items():
                m['labels'][k] = m['labels'].get(k, 0) + v
            for s in p['samples']:
                if len(m['samples']) < 3:
                    m['samples'].append(s)
            m['exhaustive_done'].append(p['exhaustive_done'])

    # ---- report
    rc = 0
    for b, n in sorted(known.items()):
        kf = core.known_finding(pid, b)
        print(
            f'KNOWN-FINDING: property={pid} {kf["what"]} '
            f'[bucket {b}, seen in {n} cases]'
        )
    seen = set()
    for fl in failures:
        if fl['bucket'] in seen:
            continue
        seen.add(fl['bucket'])
        fn = save_replay(pid, fl['part'], fl['case'], fl['bucket'], fl['detail'])
        print(f'FAIL {fl["bucket"]}: {fl["detail"]}')
        if fl.get('from_replay'):
            print(f'  (regression replay {fl["from_replay"]})')
        print(f'VIOLATION property={pid} replay={fn}')
        rc = 1

    # ---- evidence
    evaluations = sum(m['evaluations'] for m in merged.values())
    distinct = sum(len(m['nontrivial']) for m in merged.values())
    samples = []
    for name, m in merged.items():
        for s in m['samples'][:2]:
            samples.append({'part': name, 'case': s})
    parts_info = {}
    mparts = {p.name: p for p in mod.parts(tier)}
    exhaustive_all = True
    any_exh = False
    for name, m in merged.items():
        part = mparts.get(name)
        exh = bool(
            part is not None
            and part.exhaustive
            and m['exhaustive_done']
            and all(m['exhaustive_done'])
        )
        if part is not None and part.exhaustive:
            any_exh = True
            exhaustive_all &= exh
        parts_info[name] = {
            'evaluations': m['evaluations'],
            'distinct_nontrivial': len(m['nontrivial']),
            'class_counts': dict(sorted(m['labels'].items())),
            'exhaustive': exh,
            'enum_note': part.enum_note if part is not None else '',
        }
    evidence = {
        'property_id': pid,
        'tier': tier,
        'seed': seed,
        'level': mod.LEVEL,
        'coverage': {
            'evaluations': evaluations,
            'distinct_nontrivial': distinct,
            'rule': mod.RULE,
            'samples': samples,
            'parts': parts_info,
            'shards': nshards,
            'stopped_by_time_cap': time_capped,
            'known_findings_seen': known,
            'exhaustive': bool(any_exh and exhaustive_all),
            'exhaustive_note': (
                'true only for the enumerated parts marked exhaustive '
                'in "parts"; random parts are samples'
            ),
        },
        'assumptions': list(mod.ASSUMPTIONS),
        'wall_s': round(time.time() - t0, 2),
        'violations': len(seen),
    }
    os.makedirs(os.path.join(OUT, 'evidence'), exist_ok=True)
    with open(
        os.path.join(OUT, 'evidence', f'{pid}.json'),
        'wt',
        encoding='utf-8',
    ) as f:
        json.dump(evidence, f, indent=1, default=str)
    print(
        f'{pid} {tier} seed={seed}: {evaluations} cases, '
        f'{distinct} distinct non-trivial, {len(seen)} violation(s), '
        f'{evidence["wall_s"]} s' + (' [time cap hit]' if time_capped else '')
    )
    for name, info in parts_info.items():
        print(f'  part {name}: {info["evaluations"]} cases, '
              f'{info["distinct_nontrivial"]} nontrivial, '
              f'classes {info["class_counts"]}')
    return rc


if __name__ == '__main__':
    sys.exit(main())
