'''FSM rig (DESIGN.md 3.2 / C10, C12): the real dawgie.pl.state.FSM in its
production (non-doctest) mode.  The harness owns

* every background step: twisted.internet.threads.deferToThread records
  (function, args, Deferred); ``Rig.complete(j)`` runs the function on the
  harness thread and fires the Deferred, so steps finish in any order relative
  to later triggers;
* the pollers of the submit waiters: time.sleep inside dawgie.pl.state raises
  PollAgain, so one ``poll`` = one evaluation of the real loop condition;
* reactor.callLater (a task.Clock), listening sockets (no-ops), the git
  revision and module reloading (stubs), GnuPG / GUI / logger start-up
  (skipped).

The database is a real shelve store in a private directory and the algorithm
engine a small generated package on disk, so _pipeline, _reload, _archive and
_navel_gaze run unmodified.
'''

import contextlib
import os
import warnings

from . import core, engines, rig, sim, world

SPEC = {
    'style': 'legacy',
    'pkgs': ['p', 'q'],
    'placeholders': [[], []],
    'algs': [
        {'pkg': 0, 'kind': 'task', 'name': 'A', 'ver': [1, 0, 0],
         'svs': [{'name': 's', 'ver': [1, 0, 0],
                  'vals': [{'name': 'v', 'ver': [1, 0, 0]}]}],
         'inputs': [], 'feedback': [], 'events': []},
        {'pkg': 1, 'kind': 'task', 'name': 'B', 'ver': [1, 0, 0],
         'svs': [{'name': 's', 'ver': [1, 0, 0],
                  'vals': [{'name': 'v', 'ver': [1, 0, 0]}]}],
         'inputs': [{'to': 0, 'level': 'sv', 'sv': 0}], 'feedback': [],
         'events': []},
    ],
}

TRIGGERS = ['starting_trigger', 'contemplation_trigger', 'running_trigger',
            'gitting_trigger', 'archiving_trigger', 'update_trigger',
            'loading_trigger', 'updating_trigger']

# the documented arcs, written down by hand from Documentation / state.dot's
# labels (start, load, introspect, run; submit and back; archive and back;
# update, archive, refresh); cross-checked against the dot file in arcs()
HAND_ARCS = {
    ('starting', 'starting_trigger'): 'loading',
    ('loading', 'contemplation_trigger'): 'contemplation',
    ('contemplation', 'running_trigger'): 'running',
    ('running', 'gitting_trigger'): 'gitting',
    ('gitting', 'running_trigger'): 'running',
    ('running', 'archiving_trigger'): 'archiving',
    ('archiving', 'running_trigger'): 'running',
    ('running', 'update_trigger'): 'updating',
    ('updating', 'loading_trigger'): 'loading',
    ('updating', 'archiving_trigger'): 'archiving',
    ('archiving', 'updating_trigger'): 'updating',
}


class PollAgain(BaseException):
    '''a poller would sleep now'''


class _Time:
    def __init__(self, real):
        self._real = real

    def sleep(self, _s):
        import threading

        pt = getattr(threading.current_thread(), 'vf_poller', None)
        if pt is None:
            raise PollAgain()
        # a poller thread: park until the harness asks for the next iteration
        pt.parked.set()
        pt.go.wait()
        pt.go.clear()
        if pt.kill:
            raise SystemExit()

    def __getattr__(self, n):
        return getattr(self._real, n)


class _Importer:
    '''stand-in for state.RollbackImporter (module reloading is environment)'''

    def __init__(self):
        self.reloads = 0

    def reload(self):
        self.reloads += 1


_DOT_CACHE = {}


def cached_dot_parser():
    '''pydot.graph_from_dot_file memoised per (path, mtime): parsing
    state.dot costs 70 ms and every FSM() does it'''
    import pydot

    if getattr(pydot.graph_from_dot_file, '_vf_cached', False):
        return
    real = pydot.graph_from_dot_file

    def cached(path, *a, **k):
        key = (os.path.abspath(path), os.path.getmtime(path))
        if key not in _DOT_CACHE:
            _DOT_CACHE[key] = real(path, *a, **k)
        return _DOT_CACHE[key]

    cached._vf_cached = True
    pydot.graph_from_dot_file = cached


_ARCS = []


def dot_arcs():
    '''(source, trigger) -> dest parsed from state.dot by the harness'''
    import dawgie.pl.state as state
    import pydot

    if _ARCS:
        return dict(_ARCS[0])
    cached_dot_parser()
    fn = os.path.join(os.path.dirname(state.__file__), 'state.dot')
    g = pydot.graph_from_dot_file(fn)[0]
    out = {}
    for e in g.get_edges():
        a = e.get_attributes()
        out[(a['source'], a['trigger'])] = a['dest']
    _ARCS.append(dict(out))
    return out


class Step:
    def __init__(self, fn, args, kw, d):
        self.fn, self.args, self.kw, self.d = fn, args, kw, d
        self.name = getattr(fn, '__name__', str(fn))
        self.poller = self.name.startswith('is_')
        self.thread = None


class PollerThread:
    '''a submit poller on a real thread, single-stepped by the harness: it
    runs until its loop calls time.sleep, parks there, and continues for one
    more iteration each time the harness polls it.  Harness and poller never
    run at the same time, so the interleaving stays the harness's choice -
    but the poller's local state (what it read before the loop) lives on
    between polls, as it does in production.'''

    def __init__(self, step):
        import threading

        self.step = step
        self.parked = threading.Event()
        self.go = threading.Event()
        self.done = threading.Event()
        self.kill = False
        self.result = None
        self.exc = None
        self.t = threading.Thread(target=self._run, daemon=True)
        self.t.vf_poller = self
        self.t.start()

    def _run(self):
        try:
            self.result = self.step.fn(*self.step.args, **self.step.kw)
        except SystemExit:
            pass
        except BaseException as exc:  # pylint: disable=broad-except
            self.exc = exc
        finally:
            self.done.set()
            self.parked.set()

    def wait(self):
        if not self.parked.wait(20):
            raise core.HarnessError('poller thread neither parked nor ended')
        return self.done.is_set()

    def step_once(self):
        '''-> True when the poller function has returned'''
        if self.done.is_set():
            return True
        self.parked.clear()
        self.go.set()
        return self.wait()

    def stop(self):
        if not self.done.is_set():
            self.kill = True
            self.parked.clear()
            self.go.set()
            self.t.join(5)


class Rig:
    # pylint: disable=too-many-instance-attributes
    def __init__(self, archive_data=False):
        import dawgie.context
        import dawgie.pl.farm as farm
        import dawgie.pl.schedule as sched
        import dawgie.pl.state as state
        import dawgie.tools.submit as tsubmit
        import twisted.internet.reactor as reactor
        import twisted.internet.threads as threads
        from twisted.internet import task

        from . import store as storemod

        cached_dot_parser()
        storemod.use_real_digest_binaries(False)
        self.state_mod, self.farm, self.sched = state, farm, sched
        self.ctx = dawgie.context
        self.stack = contextlib.ExitStack()
        sim.reset_world()
        self.store = rig.ShelveRig()
        self.store.db.close()  # the FSM opens it in _pipeline
        self.ctx.db_rotate = 2
        self.eng = self.stack.enter_context(engines.loaded(SPEC, scan=False))
        os.makedirs(os.path.join(self.eng.root, '.git'), exist_ok=True)
        self.clock = task.Clock()
        self.pending = []
        self.errors = []  # exceptions inside background steps / callbacks
        self.trail = []
        self.pipelines = 0
        self.worked = 0
        self.rev = 0
        self._saved = {
            'defer': threads.deferToThread,
            'callLater': reactor.callLater,
            'importer': state.RollbackImporter,
            'time': state.time,
            'rev': dawgie.context._rev,
            'applied': tsubmit.already_applied,
            'automatic': tsubmit.automatic,
            'mail': tsubmit.mail_out,
            'fsm': getattr(dawgie.context, 'fsm', None),
        }
        threads.deferToThread = self._defer
        reactor.callLater = self.clock.callLater
        # the real RollbackImporter wraps builtins.__import__; restored in
        # close()
        import builtins

        self._saved['import'] = builtins.__import__
        state.time = _Time(self._saved['time'])
        dawgie.context._rev = self._next_rev
        self.already_applied = False
        tsubmit.already_applied = lambda c, r: self.already_applied
        self.automatic_ok = True
        tsubmit.automatic = self._automatic
        tsubmit.mail_out = lambda *a, **k: None
        rig_ = self

        class RecFSM(state.FSM):
            '''records every state assignment; skips GnuPG / GUI / logger'''

            @property
            def state(self):
                return self.__dict__['_st']

            @state.setter
            def state(self, v):
                self.__dict__['_st'] = v
                rig_.trail.append(v)

            def _security(self):
                return

            def _gui(self):
                return

            def _logging(self):
                return

            def _pipeline(self, *a, **k):
                rig_.pipelines += 1
                with warnings.catch_warnings():
                    warnings.simplefilter('ignore')
                    return state.FSM._pipeline(self, *a, **k)

        self.fsm = RecFSM()
        self.fsm.wait_timeout = 0
        self.trail.clear()
        self.trail.append(self.fsm.state)
        dawgie.context.fsm = self.fsm
        farm.ARCHIVE = False
        self.archive_data = archive_data

    # ---- environment callbacks

    def _next_rev(self):
        self.rev += 1
        return f'rev-{self.rev}'

    def _automatic(self, **kw):
        import dawgie.tools.submit as tsubmit

        return (tsubmit.State.SUCCESS if self.automatic_ok
                else tsubmit.State.FAILED)

    def _defer(self, fn, *args, **kw):
        from twisted.internet import defer

        d = defer.Deferred()
        self.pending.append(Step(fn, args, kw, d))
        return d

    # ---- driving

    def lifecycle_steps(self):
        return [s for s in self.pending if not s.poller]

    def pollers(self):
        return [s for s in self.pending if s.poller]

    def complete(self, step):
        '''run a background step to completion on the harness thread'''
        from twisted.python import failure

        if step.poller:
            if step.thread is None:
                step.thread = PollerThread(step)
                ended = step.thread.wait()
            else:
                ended = step.thread.step_once()
            if not ended:
                return False  # still polling
            self.pending.remove(step)
            if step.thread.exc is not None:
                self.errors.append((step.name, step.thread.exc))
                step.d.errback(failure.Failure(step.thread.exc))
                return True
            res = step.thread.result
        else:
            self.pending.remove(step)
            try:
                res = step.fn(*step.args, **step.kw)
            except Exception as exc:  # pylint: disable=broad-except
                self.errors.append((step.name, exc))
                step.d.errback(failure.Failure(exc))
                return True
        errs = []
        step.d.addErrback(lambda f: errs.append(f) or None)
        step.d.callback(res)
        for f in errs:
            self.errors.append((step.name + ':callback', f.value))
        return True

    def new_revision(self):
        '''the AE gains a module and an import of it: what a submitted
        changeset looks like to the next reload'''
        import importlib

        self.extra = getattr(self, 'extra', 0) + 1
        name = f'extra_{self.extra}'
        pkg = os.path.join(self.eng.root, self.eng.base, 'p')
        with open(os.path.join(pkg, name + '.py'), 'wt',
                  encoding='utf-8') as f:
            f.write(f'VALUE = {self.extra}\n')
        with open(os.path.join(pkg, 'bot.py'), 'at', encoding='utf-8') as f:
            f.write(f'\nimport {self.eng.base}.p.{name}\n')
        importlib.invalidate_caches()

    def work(self, target='T1'):
        '''one real execution of algorithm p.A (worker.Context.run in this
        process): stores a value and the run's metrics, so that introspection
        has something to look at'''
        import importlib

        import dawgie.db
        import dawgie.pl.worker

        if not self.fsm.is_pipeline_active():
            return False
        dawgie.db.add(target)
        runid = dawgie.db.next()
        factory = getattr(importlib.import_module(f'{self.eng.base}.p'),
                          'task')
        ctx = dawgie.pl.worker.Context(('localhost', rig.FARM_PORT),
                                       self.ctx.git_rev)
        with self.store.worker_side():
            ctx.run(factory, 0, 'p.A', runid, target, {})
        self.worked += 1
        return True

    def run_calls(self):
        '''reactor.callLater(0, ...) items'''
        self.clock.advance(0)

    def snapshot(self):
        f = self.fsm
        return (f.state, f.transitioning, f._FSM__prior,
                tuple(id(s) for s in self.pending), self.farm.ARCHIVE,
                f.priority, self.pipelines,
                f.wait_on_crew.is_set(), f.wait_on_doing.is_set(),
                f.wait_on_todo.is_set())

    def at_rest(self):
        from dawgie.pl.state import Status

        return (self.fsm.state in ('running', 'gitting')
                and self.fsm.transitioning == Status.active
                and not self.lifecycle_steps())

    def close(self):
        import dawgie.context
        import dawgie.tools.submit as tsubmit
        import twisted.internet.reactor as reactor
        import twisted.internet.threads as threads

        s = self._saved
        threads.deferToThread = s['defer']
        reactor.callLater = s['callLater']
        import builtins

        builtins.__import__ = s['import']
        self.state_mod.time = s['time']
        dawgie.context._rev = s['rev']
        tsubmit.already_applied = s['applied']
        tsubmit.automatic = s['automatic']
        tsubmit.mail_out = s['mail']
        dawgie.context.fsm = s['fsm']
        for st in list(self.pending):
            st.d.addErrback(lambda f: None)
            if st.thread is not None:
                st.thread.stop()
        self.pending.clear()
        try:
            self.store.close()
        finally:
            sim.reset_world()
            self.stack.close()


def check_arc_tables():
    '''the dot file and the hand-written table must agree (harness sanity:
    a difference is itself a violation of "documented transitions")'''
    d = dot_arcs()
    if d != HAND_ARCS:
        missing = {k: v for k, v in HAND_ARCS.items() if d.get(k) != v}
        extra = {k: v for k, v in d.items() if HAND_ARCS.get(k) != v}
        return f'documented arcs missing from state.dot: {missing}; ' \
               f'undocumented arcs in state.dot: {extra}'
    return None


__all__ = ['Rig', 'PollAgain', 'TRIGGERS', 'HAND_ARCS', 'dot_arcs',
           'check_arc_tables', 'core', 'world']
