'''C14 - message streams are fragmentation-proof and gated by the handshake.

Real protocol objects (farm.Hand, shelve comms.Worker, logger.LogSink and
security.TwistedWrapper in front of each) on recording transports; the
application-level sink (Hand._process, Worker.do, the log handler) is replaced
by a recorder so that only framing and the handshake gate run.

Oracle: differential - for every chunking (and every interleaving of several
connections) the recorded message sequence equals the sequence sent; with the
legacy handshake nothing is recorded before the final packet verified, glued
bytes follow in order, a failed handshake closes the connection with nothing
recorded.  The harness honours Twisted's contract that nothing is delivered
after loseConnection().
'''

import hashlib
import hmac
import logging
import pickle
import struct

from hypothesis import strategies as st

from .. import core, rig, world

ID = 'C14'
LEVEL = 'exploration'
RULE = (
    'Generated: channel (farm, database, log) x 1-5 application messages '
    '(farm MSGs of all types with payloads up to 3 kB, database COMMANDs, '
    'log-record dicts) x a chunking of the byte stream (random cut points, '
    'all-1-byte, coalesced) x optionally 2-3 connections whose chunks are '
    'interleaved (part chunks). Part splits takes a generated stream and '
    'tries every single split position and every pair of positions within 6 '
    'bytes of a frame boundary or length prefix. Part handshake generates a '
    'transcript: signature of each packet valid/invalid, magic and length '
    'prefixes right/wrong, echo right/wrong/replayed, application bytes '
    'glued to the final packet, any chunking of both client flights. '
    'Non-trivial: a cut falls inside a length prefix or inside the final '
    'handshake packet, or connections are interleaved mid-frame. Distinct = '
    'SHA-1 of the case JSON.'
    ' The receive part also feeds Connector.__do (the database client) its '
    'reply in the generated piece sizes. '
)
ASSUMPTIONS = [
    'Twisted transport contract: after loseConnection() no further bytes are '
    'delivered to the protocol (the harness stops feeding)',
    'GnuPG replaced by a deterministic stand-in with the same verify / '
    'decrypt / sign surface (HMAC-tagged envelopes): the property is about '
    'framing and the handshake gate, not about GnuPG',
    'application sinks replaced by recorders; database connections carry '
    'any number of acquire/copy requests followed by at most one other '
    'request, because the real server closes the connection after the latter',
    'TLS deployments (no legacy handshake wrapper) are the "plain" mode of '
    'parts chunks and splits; the TLS layer itself is Twisted/OpenSSL',
]

KEY = b'verif-key'


class _Resp:
    def __init__(self, valid=False, data=b'', status=''):
        self.valid = valid
        self.data = data
        self.status = status


class FakePGP:
    '''verify / decrypt / sign with HMAC-tagged envelopes'''

    @staticmethod
    def envelope(payload: bytes, good=True) -> bytes:
        tag = hmac.new(KEY, payload, hashlib.sha1).hexdigest().encode()
        if not good:
            tag = tag[::-1]
        return b'-----SIGNED ' + tag + b'\n' + payload

    @staticmethod
    def _parse(data):
        if not data.startswith(b'-----SIGNED '):
            return None
        head, _, payload = data.partition(b'\n')
        tag = head[len(b'-----SIGNED '):]
        good = hmac.new(KEY, payload, hashlib.sha1).hexdigest().encode()
        return payload if hmac.compare_digest(tag, good) else None

    def verify(self, data):
        return _Resp(valid=self._parse(bytes(data)) is not None)

    def decrypt(self, data):
        p = self._parse(bytes(data))
        return _Resp(valid=p is not None, data=p if p is not None else b'')

    def sign(self, message, passphrase=None, clearsign=True):
        # pylint: disable=unused-argument
        m = message.encode() if isinstance(message, str) else message
        return _Resp(valid=True, data=self.envelope(m), status='ok')


class Collect(logging.Handler):
    def __init__(self):
        super().__init__()
        self.records = []

    def handle(self, record):
        self.records.append(record)

    def flush(self):
        pass


# ---- messages (plain data <-> objects)


def _mk_farm(m):
    import dawgie.pl.message as message

    typ = [message.Type.register, message.Type.response, message.Type.status,
           message.Type.task, message.Type.wait, message.Type.cloud][m['t'] % 6]
    return message.make(
        ctxt=b'c' * m['pad'], inc=m['n'], jid=f'job{m["n"]}', rev='rev-0',
        rid=m['n'], suc=[True, False, None][m['n'] % 3], target='T',
        tim={'a': 1}, typ=typ, val=[('v', True)] * (m['pad'] % 7),
    )


def _mk_db(m, closing):
    import dawgie.db.shelve.comms as comms
    from dawgie.db.shelve.enums import Func, Table

    if closing:
        func = [Func.get, Func.table, Func.release, Func.append,
                Func.upd][m['t'] % 5]
    else:
        func = [Func.acquire, Func.dbcopy][m['t'] % 2]
    return comms.COMMAND(func, ('k', m['n']), Table.prime, 'x' * m['pad'])


def _mk_log(m):
    return {'name': f'lg{m["n"]}', 'msg': 'm' * m['pad'], 'levelno': 20,
            'levelname': 'INFO', 'args': None, 'n': m['n']}


def _frame(obj):
    b = pickle.dumps(obj, pickle.HIGHEST_PROTOCOL)
    return struct.pack('>I', len(b)) + b


def build_stream(channel, msgs):
    '''-> (bytes, expected recorded sequence, frame boundaries)'''
    objs = []
    for i, m in enumerate(msgs):
        if channel == 'farm':
            objs.append(_mk_farm(m))
        elif channel == 'db':
            objs.append(_mk_db(m, closing=(i == len(msgs) - 1 and m['t'] % 3)))
        else:
            objs.append(_mk_log(m))
    data = b''
    bounds = []
    for o in objs:
        bounds.append(len(data))
        data += _frame(o)
    return data, objs, bounds


class Conn:
    '''one server-side connection with its recorder'''

    def __init__(self, channel, n=0):
        import dawgie.db.shelve.comms as comms
        import dawgie.pl.farm as farm
        import dawgie.pl.logger as logger

        self.channel = channel
        self.got = []
        self.t = world.Transport()
        addr = world.Address(f'peer{n}', 7000 + n)
        if channel == 'farm':
            self.p = farm.Hand(addr)
            self.p._process = self.got.append
        elif channel == 'db':
            self.p = comms.Worker(addr)
            self.p.do = self.got.append
        else:
            self.h = Collect()
            self.p = logger.LogSink(self.h, addr)
        self.p.makeConnection(self.t)
        self.fed_after_close = 0

    def feed(self, chunk):
        if self.t.closed:
            return False
        self.p.dataReceived(chunk)
        return True

    def recorded(self):
        if self.channel == 'log':
            return [{k: r.__dict__.get(k) for k in ('name', 'msg', 'n')}
                    for r in self.h.records]
        return list(self.got)


def _expected(channel, objs):
    if channel == 'log':
        return [{k: o.get(k) for k in ('name', 'msg', 'n')} for o in objs]
    return objs


def _cut(data, cuts):
    pts = sorted({c % (len(data) + 1) for c in cuts} | {0, len(data)})
    return [data[a:b] for a, b in zip(pts, pts[1:]) if b > a]


def _cuts_for(mode, cuts, n):
    if mode == 'bytes':
        return list(range(n + 1))
    if mode == 'whole':
        return []
    return cuts


def _in_prefix(cutpoints, bounds):
    return any(0 < c - b < 4 for c in cutpoints for b in bounds)


# ---- part chunks


def exec_chunks(case):
    out = core.Outcome()
    rig.install()
    rig.tls_mode(True)
    conns = []
    plan = []
    for ci, c in enumerate(case['conns']):
        data, objs, bounds = build_stream(case['channel'], c['msgs'])
        cuts = _cuts_for(c['mode'], c['cuts'], len(data))
        chunks = _cut(data, cuts)
        conn = Conn(case['channel'], ci)
        conns.append((conn, objs, data))
        plan.append(chunks)
        pts = sorted({x % (len(data) + 1) for x in cuts})
        if _in_prefix(pts, bounds):
            out.nontrivial = True
            out.label('cut-inside-length-prefix')
        if c['mode'] == 'bytes':
            out.label('one-byte-chunks')
    # interleave the connections' chunks in the generated order
    pos = [0] * len(plan)
    order = list(case['order'])
    k = 0
    switches = 0
    last = None
    while any(pos[i] < len(plan[i]) for i in range(len(plan))):
        live = [i for i in range(len(plan)) if pos[i] < len(plan[i])]
        i = live[(order[k % len(order)] if order else 0) % len(live)]
        k += 1
        if last is not None and i != last and 0 < pos[last] < len(plan[last]):
            switches += 1
        last = i
        conns[i][0].feed(plan[i][pos[i]])
        pos[i] += 1
    if switches:
        out.nontrivial = True
        out.label('connections-interleaved-mid-stream')
    for ci, (conn, objs, _data) in enumerate(conns):
        want = _expected(case['channel'], objs)
        got = conn.recorded()
        if got != want:
            out.fail(
                f'framing/sequence-differs@{case["channel"]}',
                f'connection {ci}: sent {len(want)} messages, recorded '
                f'{len(got)}; first difference at '
                f'{next((j for j, (a, b) in enumerate(zip(got, want)) if a != b), min(len(got), len(want)))}',
            )
    return out


# ---- part splits: every single split, pairs near boundaries


def exec_splits(case):
    out = core.Outcome()
    rig.install()
    rig.tls_mode(True)
    data, objs, bounds = build_stream(case['channel'], case['msgs'])
    want = _expected(case['channel'], objs)
    n = len(data)
    near = sorted({b + d for b in bounds + [n] for d in range(-6, 7)
                   if 0 < b + d < n})
    tried = 0
    plans = [[i] for i in range(1, n)]
    plans += [[a, b] for a in near for b in near if a < b]
    for cuts in plans:
        conn = Conn(case['channel'])
        for ch in _cut(data, cuts):
            conn.feed(ch)
        tried += 1
        if conn.recorded() != want:
            out.fail(
                f'framing/sequence-differs@{case["channel"]}',
                f'split at {cuts} of a {n}-byte stream (frames at {bounds}): '
                f'recorded {len(conn.recorded())} of {len(want)} messages',
            )
            return out
    out.nontrivial = True
    out.label(f'splits-tried>={tried // 500 * 500}')
    return out


# ---- part handshake


def exec_handshake(case):
    import dawgie.security as sec

    out = core.Outcome()
    rig.install()
    rig.tls_mode(False)
    real_pgp = sec._PGP
    sec._PGP = FakePGP()
    try:
        k = case['knobs']
        data, objs, _b = build_stream(case['channel'], case['msgs'])
        want = _expected(case['channel'], objs)
        conn = Conn(case['channel'])
        hid = b' machine: h\ntemporal: now\nusername: verif\n'
        sig1 = FakePGP.envelope(hid, good=k['sig1'])
        len1 = len(sig1) + k['len1']
        flight1 = struct.pack('>I', 4 + k['magic1']) + struct.pack(
            '>I', max(0, len1)) + sig1
        recorded_during = []
        for ch in _cut(flight1, _cuts_for(case['mode1'], case['cuts1'],
                                          len(flight1))):
            if not conn.feed(ch):
                break
            recorded_during.append(len(conn.recorded()))
        # the challenge the server wrote (if it got that far)
        wrote = conn.t.data
        challenge = None
        if len(wrote) >= 4:
            n = struct.unpack('>I', wrote[:4])[0]
            challenge = wrote[4:4 + n]
        valid1 = k['sig1'] and k['magic1'] == 0 and k['len1'] == 0
        if valid1 and challenge is None and not conn.t.closed:
            out.fail('handshake/no-challenge',
                     'valid first packet but the server wrote no challenge')
            return out
        if not valid1 and challenge is not None and k['sig1'] is False:
            out.fail('handshake/challenge-to-bad-signature', '')
        echo = challenge if challenge is not None else b'timestamp: x\nunique id: 0'
        if k['echo'] == 1:
            echo = echo + b'!'
        elif k['echo'] == 2:
            echo = b'timestamp: 2001-01-01\nunique id: 0.5'  # replayed
        sig2 = FakePGP.envelope(echo, good=k['sig2'])
        len2 = len(sig2) + k['len2']
        final = struct.pack('>I', 4 + k['magic2']) + struct.pack(
            '>I', max(0, len2)) + sig2
        glued = final + (data if case['glue'] else b'')
        cuts2 = _cuts_for(case['mode2'], case['cuts2'], len(glued))
        pts = sorted({c % (len(glued) + 1) for c in cuts2})
        if any(0 < c < len(final) for c in pts):
            out.nontrivial = True
            out.label('cut-inside-final-handshake-packet')
        if case['glue'] and not any(c == len(final) for c in pts):
            out.nontrivial = True
            out.label('app-bytes-glued-to-final-packet')
        ok = (valid1 and k['sig2'] and k['magic2'] == 0 and k['len2'] == 0
              and k['echo'] == 0)
        out.label('handshake-valid' if ok else 'handshake-invalid')
        fed = 0
        for ch in _cut(glued, cuts2):
            before_final = fed + len(ch) < len(final)
            if not conn.feed(ch):
                break
            fed += len(ch)
            if before_final and conn.recorded():
                out.fail('gate/message-before-handshake-completed',
                         f'{len(conn.recorded())} messages recorded after '
                         f'{fed} of {len(final)} handshake bytes; knobs={k}')
                return out
        if not case['glue'] and not conn.t.closed:
            for ch in _cut(data, _cuts_for(case['mode1'], case['cuts1'],
                                           len(data))):
                if not conn.feed(ch):
                    break
        got = conn.recorded()
        if ok:
            if conn.t.closed and case['channel'] != 'db':
                out.fail('handshake/valid-but-closed', f'knobs={k}')
            if got != want:
                out.fail(
                    f'gate/after-handshake-sequence-differs@{case["channel"]}',
                    f'valid handshake, glue={case["glue"]}: sent {len(want)} '
                    f'recorded {len(got)}',
                )
        else:
            if got:
                out.fail('gate/message-delivered-after-failed-handshake',
                         f'knobs={k} glue={case["glue"]}: {len(got)} '
                         'messages reached the application')
            # a mismatch only in a length prefix may leave the server waiting
            # for bytes that never come; every other failure must close
            waits = (k['len1'] > 0 or k['len2'] > 0) and not (
                k['magic1'] or (valid1 and k['magic2']))
            if not conn.t.closed and not waits:
                out.fail('handshake/failed-but-connection-open', f'knobs={k}')
    finally:
        sec._PGP = real_pgp
        rig.tls_mode(True)
    return out


# ---- part receive: the client side of the framing


class _Exhausted(Exception):
    '''the reader asked for bytes that were never sent'''


class FragSocket:
    def __init__(self, data, sizes):
        self.data = data
        self.sizes = sizes
        self.i = 0
        self.pos = 0

    def recv(self, n):
        lim = self.sizes[self.i % len(self.sizes)] if self.sizes else n
        self.i += 1
        k = max(1, min(n, lim))
        b = self.data[self.pos:self.pos + k]
        self.pos += len(b)
        if not b:
            raise _Exhausted()
        return b

    def sendall(self, b):
        self.data += b


def exec_receive(case):
    import dawgie.pl.message as message

    out = core.Outcome()
    data, objs, bounds = build_stream('farm', case['msgs'])
    sock = FragSocket(b'', [])
    for o in objs:
        message.send(o, sock)
    if sock.data != data:
        out.fail('framing/send-format', 'message.send is not 4-byte length + '
                 'pickle')
    rd = FragSocket(data, case['sizes'])
    got = []
    try:
        for _ in objs:
            got.append(message.receive(rd))
    except Exception as exc:  # pylint: disable=broad-except
        out.fail('framing/receive-differs',
                 f'sizes={case["sizes"][:8]}: message {len(got) + 1} of '
                 f'{len(objs)}: {type(exc).__name__}: {exc}')
        return out
    if got != objs:
        out.fail('framing/receive-differs', f'sizes={case["sizes"][:8]}')
    if rd.pos != len(data):
        out.fail('framing/receive-left-bytes', f'{len(data) - rd.pos}')
    if case['sizes'] and min(case['sizes']) < 4:
        out.nontrivial = True
        out.label('recv-smaller-than-prefix')
    if out.failures:
        return out
    # the other blocking reader: the database client (Connector.__do) gets
    # its reply through recv() in the same generated piece sizes
    import dawgie.db.shelve.comms as comms
    import dawgie.security as sec

    real_connect = sec.connect
    try:
        for n, reply in enumerate(
                [True, {'k' * (1 + m['pad'] % 300): list(range(m['n']))}]
                for m in case['msgs']):
            for obj in reply:
                class _Reply(FragSocket):
                    def sendall(self, b):
                        pass  # the request; the scripted reply follows

                    def close(self):
                        pass

                rs = _Reply(_frame(obj), case['sizes'])
                sec.connect = lambda _a, _s=rs: _s
                try:
                    got = comms.Connector._Connector__do(
                        comms.COMMAND(comms.Func.table, None,
                                      comms.Table.target, None))
                except Exception as exc:  # pylint: disable=broad-except
                    out.fail('framing/db-client-reply-differs',
                             f'sizes={case["sizes"][:8]}: reply {n}: '
                             f'{type(exc).__name__}: {exc}')
                    return out
                if got != obj:
                    out.fail('framing/db-client-reply-differs',
                             f'sizes={case["sizes"][:8]}: {got!r:.80}')
                    return out
    finally:
        sec.connect = real_connect
    return out


# ---- strategies

_msg = st.fixed_dictionaries({
    't': st.integers(0, 11),
    'n': st.integers(0, 9),
    'pad': st.one_of(st.integers(0, 40), st.integers(0, 3000)),
})
_small_msg = st.fixed_dictionaries({
    't': st.integers(0, 11), 'n': st.integers(0, 9), 'pad': st.integers(0, 12),
})
_cuts = st.lists(st.integers(0, 5000), max_size=12)
_mode = st.sampled_from(['cuts', 'cuts', 'cuts', 'bytes', 'whole'])
_conn = st.fixed_dictionaries({
    'msgs': st.lists(_msg, min_size=1, max_size=5),
    'cuts': _cuts,
    'mode': _mode,
})
_chunks = st.fixed_dictionaries({
    'channel': st.sampled_from(['farm', 'db', 'log']),
    'conns': st.lists(_conn, min_size=1, max_size=3),
    'order': st.lists(st.integers(0, 5), min_size=1, max_size=12),
})
_splits = st.fixed_dictionaries({
    'channel': st.sampled_from(['farm', 'db', 'log']),
    'msgs': st.lists(_small_msg, min_size=1, max_size=3),
})
_knobs = st.one_of(
    st.just({'sig1': True, 'magic1': 0, 'len1': 0, 'sig2': True, 'magic2': 0,
             'len2': 0, 'echo': 0}),
    st.fixed_dictionaries({
        'sig1': st.sampled_from([True, True, True, False]),
        'magic1': st.sampled_from([0, 0, 0, 0, 1, -4]),
        'len1': st.sampled_from([0, 0, 0, 0, -1, 3]),
        'sig2': st.sampled_from([True, True, False]),
        'magic2': st.sampled_from([0, 0, 0, 1]),
        'len2': st.sampled_from([0, 0, 0, -2, 5]),
        'echo': st.sampled_from([0, 0, 1, 2]),
    }),
)
_handshake = st.fixed_dictionaries({
    'channel': st.sampled_from(['farm', 'db', 'log']),
    'msgs': st.lists(_small_msg, min_size=1, max_size=3),
    'knobs': _knobs,
    'glue': st.booleans(),
    'cuts1': _cuts, 'mode1': _mode,
    'cuts2': _cuts, 'mode2': _mode,
})
_receive = st.fixed_dictionaries({
    'msgs': st.lists(_msg, min_size=1, max_size=4),
    'sizes': st.lists(st.integers(1, 64), max_size=8),
})


def parts(tier):
    q = tier == 'quick'
    return [
        core.Part('chunks', exec_chunks, strategy=_chunks,
                  cases=4000 if q else 200000, batch=500),
        core.Part('splits', exec_splits, strategy=_splits,
                  cases=80 if q else 3000, batch=20),
        core.Part('handshake', exec_handshake, strategy=_handshake,
                  cases=4000 if q else 200000, batch=500),
        core.Part('receive', exec_receive, strategy=_receive,
                  cases=1000 if q else 30000, batch=500),
    ]
