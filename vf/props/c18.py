'''C18 - execution history: every run recorded once, queries return the window.

Oracle: brute force over everything the harness appended (kept in memory and
re-read from the journal files with plain json, never through chronicle).
'''

import datetime
import json
import os

from hypothesis import strategies as st

from .. import core, world

ID = 'C18'
LEVEL = 'exploration'
RULE = (
    'Generated: 1-14 completion instants built from a pool of day offsets '
    '(adjacent days, month ends, year ends, leap day) x any second of the day '
    'x optional microseconds, with outcome success/failure/invalid and run '
    'IDs that repeat (several appends hit one journal file); a clock "now" '
    'at or after the last entry; a query (after, before, limit, outcome) '
    'whose bounds are drawn near the entries at arbitrary times of day. '
    'Non-trivial: some matching entry lies on an earlier calendar day than '
    'the upper bound and has a later time of day than the bound (part find), '
    'or two appends share a journal file (parts append/complete). Distinct = '
    'SHA-1 of the canonical case JSON.'
    ' Part append may inject one OSError into the n-th open() of one append,'
    ' which is then retried. '
    ' Part api may ask the same question again after fe.api.df_model_statis'
    "tics and a caller that scribbles on find()'s results have read the his"
    'tory. '
    ' Part api writes the bounds with a UTC offset in some cases and may ap'
    'pend further completions before the question is asked again. '
)
ASSUMPTIONS = [
    'query bounds are timezone-aware UTC datetimes (what schedule.complete '
    'writes and what the front end parses from ISO strings with offset)',
    'entries are never completed after the clock instant of the query',
    'after+limit without before is not specified by the property: only '
    'window membership, outcome, no duplicates and size<=limit are asserted',
    'order among entries with identical completion instants is unspecified',
]

EPOCH = datetime.datetime(2019, 12, 28, tzinfo=datetime.UTC)
# day offsets from EPOCH: adjacent days, month end (Dec->Jan, Jan->Feb),
# leap day 2020-02-29, year end 2020->2021, a far year
DAYS = [0, 1, 2, 3, 4, 5, 34, 35, 36, 62, 63, 64, 65, 368, 369, 370, 371,
        400, 733, 734, 1100, 1464]
STATUS = ['success', 'failure', 'invalid']


def instant(d, s, us):
    return EPOCH + datetime.timedelta(days=d, seconds=s, microseconds=us)


_sec = st.one_of(
    st.integers(0, 86399),
    st.sampled_from([0, 1, 3599, 28800, 43200, 72000, 86398, 86399]),
)
_us = st.one_of(st.just(0), st.integers(0, 999999))
_inst = st.tuples(st.sampled_from(DAYS), _sec, _us).map(list)
_entry = st.fixed_dictionaries(
    {
        't': _inst,
        'status': st.sampled_from(STATUS),
        'runid': st.integers(1, 4),
        'target': st.sampled_from(['T1', 'T2', '__all__']),
        'task': st.sampled_from(['a.x', 'a.y', 'b.x']),
    }
)


@st.composite
def _find_case(draw):
    entries = draw(st.lists(_entry, min_size=1, max_size=14))
    # bounds near entries: pick an entry day (or neighbour) and any time
    days = sorted({e['t'][0] for e in entries})
    near = st.tuples(
        st.sampled_from(days).flatmap(
            lambda d: st.sampled_from([d - 1, d, d, d + 1])
        ),
        _sec,
        _us,
    ).map(list)
    bound = st.one_of(near, _inst)
    mode = draw(st.sampled_from(['both', 'both', 'before', 'before+limit',
                                 'limit', 'after', 'after+limit']))
    after = draw(bound) if 'after' in mode or mode == 'both' else None
    before = draw(bound) if 'before' in mode or mode == 'both' else None
    if mode == 'both' and draw(st.booleans()):
        # make windows that span several days likely
        if instant(*after) > instant(*before):
            after, before = before, after
    limit = draw(st.integers(1, 8)) if 'limit' in mode else None
    if mode == 'both' and draw(st.integers(0, 4)) == 0:
        limit = draw(st.integers(1, 3))  # must be ignored
    last = max(instant(*e['t']) for e in entries)
    now_off = draw(st.one_of(st.just(0), st.integers(0, 3 * 86400)))
    return {
        'entries': entries,
        'after': after,
        'before': before,
        'limit': limit,
        'succeeded': draw(st.booleans()),
        'now_off': now_off,
        'last': [(last - EPOCH).days, (last - EPOCH).seconds,
                 (last - EPOCH).microseconds],
    }


def _setup(clock):
    import dawgie.context
    import dawgie.pl.logger.chronicle as chron

    d = world.fresh_dir('c18')
    dawgie.context.data_dbs = d
    chron.datetime = world.fake_datetime_class(clock)
    return d, chron


def _read_journals(root):
    '''all entries on disk, read without chronicle'''
    out = []
    base = os.path.join(root, 'chronicles')
    for dp, _dn, fns in os.walk(base):
        for fn in fns:
            if fn.endswith('.json'):
                with open(os.path.join(dp, fn), 'rt', encoding='utf-8') as f:
                    for e in json.load(f):
                        out.append((os.path.relpath(dp, base), fn, e))
    return out


def _mk_record(e):
    t = instant(*e['t'])
    return {
        'changeset': 'rev-0',
        'runid': e['runid'],
        'status': e['status'],
        'target': e['target'],
        'task': e['task'],
        'timing': {
            'scheduled': t - datetime.timedelta(seconds=30),
            'started': t - datetime.timedelta(seconds=20),
            'completed': t,
        },
        'version': '1.0.0',
    }


def _key(e):
    '''identity of an appended entry as found in a journal / a result'''
    return (
        e['timing']['completed'],
        e['runid'],
        e['status'],
        e['target'],
        e['task'],
    )


def _check_disk(out, root, appended, where):
    disk = _read_journals(root)
    want = sorted(_key(r) for r in appended)
    got = sorted(_key(e) for _d, _f, e in disk)
    if want != got:
        lost = [k for k in want if k not in got]
        dup = [k for k in got if got.count(k) > want.count(k)]
        out.fail(
            'journal-multiset/' + ('lost' if lost else 'dup' if dup else 'diff'),
            f'{where}: appended {len(want)} on disk {len(got)} lost={lost[:2]} '
            f'dup={dup[:2]}',
        )
    for d, fn, e in disk:
        day = e['timing']['completed'].split(' ')[0].replace('-', os.sep)
        if d != day or fn != f'{e["runid"]}.json':
            out.fail('journal-location/wrong-file', f'{d}/{fn} holds {_key(e)}')


def exec_find(case):
    out = core.Outcome()
    clock = world.Clock()
    root, chron = _setup(clock)
    try:
        appended = []
        files = set()
        for e in case['entries']:
            rec = _mk_record(e)
            chron.append(rec)  # converts datetimes to strings in place
            appended.append(rec)
            f = (rec['timing']['completed'].split(' ')[0], rec['runid'])
            if f in files:
                out.label('shared-journal-file')
            files.add(f)
        _check_disk(out, root, appended, 'after appends')
        now = instant(*case['last']) + datetime.timedelta(
            seconds=case['now_off']
        )
        clock.now = now
        after = instant(*case['after']) if case['after'] else None
        before = instant(*case['before']) if case['before'] else None
        limit = case['limit']
        status = 'success' if case['succeeded'] else 'failure'
        res = chron.find(
            after=after, before=before, limit=limit, succeeded=case['succeeded']
        )
        lo = after if after else datetime.datetime(1980, 1, 1, tzinfo=datetime.UTC)
        hi = before if before else now

        def comp(e):
            return datetime.datetime.fromisoformat(e['timing']['completed'])

        window = [
            r for r in appended if lo < comp(r) < hi and r['status'] == status
        ]
        window.sort(key=comp, reverse=True)
        got = [_key(e) for e in res]
        want = [_key(r) for r in window]
        mode = ('A' if after else '') + ('B' if before else '') + (
            'L' if limit else ''
        )
        out.label('mode-' + (mode or 'none'))
        # non-triviality: a matching entry on an earlier day with a later
        # time of day than the upper bound
        for r in window:
            c = comp(r)
            if c.date() < hi.date() and c.time() > hi.time():
                out.nontrivial = True
                out.label('earlier-day-later-tod')
        if len({comp(r).date() for r in window}) > 1:
            out.label('window-spans-days')
        if window:
            out.label('window-nonempty')
        # no duplicates, all from what was appended, right outcome, in window
        for k in got:
            if got.count(k) > [_key(r) for r in appended].count(k):
                out.fail('find/duplicate', f'{k} returned more often than appended')
                break
        stray = [k for k in got if k not in want]
        if stray:
            out.fail(
                'find/outside-window-or-outcome',
                f'mode={mode} lo={lo} hi={hi} status={status} stray={stray[:3]}',
            )
        times = [k[0] for k in got]
        if mode != 'AL' and times != sorted(times, reverse=True):
            out.fail('find/not-newest-first', f'mode={mode} order={times[:6]}')
        if mode in ('AB', 'ABL', 'A', 'B'):
            if sorted(got) != sorted(want):
                missing = [k for k in want if k not in got]
                out.fail(
                    'find/window-not-exact',
                    f'mode={mode} after={after} before={before} now={now} '
                    f'status={status} missing={missing[:3]} '
                    f'got={len(got)} want={len(want)}',
                )
        elif mode in ('BL', 'L'):
            n = min(limit, len(want))
            if len(got) != n:
                out.fail(
                    'find/truncation-size',
                    f'mode={mode} limit={limit} window={len(want)} got={len(got)} '
                    f'before={before} now={now}',
                )
            elif not stray:
                # validity form: nothing excluded is newer than something kept
                kept = sorted(got)
                rest = sorted(want)
                for k in kept:
                    rest.remove(k)
                if kept and rest and max(r[0] for r in rest) > min(
                    k[0] for k in kept
                ):
                    out.fail(
                        'find/truncation-not-newest',
                        f'mode={mode} kept oldest {min(k[0] for k in kept)} but '
                        f'dropped {max(r[0] for r in rest)}',
                    )
        elif mode == 'AL':
            if len(got) > limit:
                out.fail('find/limit-exceeded', f'limit={limit} got={len(got)}')
    finally:
        world.rm(root)
    return out


# ---- part "complete": schedule.complete -> chronicle.append exactly once

_unit = st.fixed_dictionaries(
    {
        'dt': st.integers(0, 2 * 86400),
        'us': _us,
        'status': st.sampled_from(['success', 'failure', 'invalid']),
        'runid': st.integers(0, 3),
        'target': st.sampled_from(['T1', 'T2', '__all__']),
        'task': st.sampled_from(['a.x', 'a.y']),
    }
)
_complete_case = st.fixed_dictionaries(
    {
        'start': _inst,
        'units': st.lists(_unit, min_size=1, max_size=10),
    }
)


def exec_complete(case):
    import dawgie
    import dawgie.pl.dag
    import dawgie.pl.schedule as sched
    import dawgie.util.fifo
    from dawgie.pl.jobinfo import State

    out = core.Outcome()
    clock = world.Clock(instant(*case['start']))
    root, _chron = _setup(clock)
    sched.datetime = world.fake_datetime_module(clock)

    class Alg(dawgie.Version):
        def __init__(self):
            self._version_ = dawgie.VERSION(1, 2, 3)

    try:
        appended = []
        files = set()
        for u in case['units']:
            clock.advance(u['dt'])
            clock.now = clock.now.replace(microsecond=u['us'])
            node = dawgie.pl.dag.Node(
                u['task'],
                attrib={
                    'alg': Alg(),
                    'do': set(),
                    'doing': {u['target']},
                    'todo': dawgie.util.fifo.Unique(),
                    'status': State.running,
                },
            )
            sched.que = [node]
            sched.err.clear()
            sched.suc.clear()
            before = len(_read_journals(root))
            timing = {
                'scheduled': clock.now - datetime.timedelta(seconds=9),
                'started': clock.now - datetime.timedelta(seconds=5),
            }
            sched.complete(
                node, u['runid'], u['target'], timing, State[u['status']]
            )
            disk = _read_journals(root)
            if len(disk) != before + 1:
                out.fail(
                    'complete/not-exactly-one-entry',
                    f'journal grew by {len(disk) - before} for {u}',
                )
            rec = {
                'runid': u['runid'],
                'status': u['status'],
                'target': u['target'],
                'task': u['task'],
                'timing': {'completed': str(clock.now)},
            }
            appended.append(rec)
            f = (str(clock.now.date()), u['runid'])
            if f in files:
                out.nontrivial = True
                out.label('shared-journal-file')
            files.add(f)
            if sched.que:
                out.fail('complete/que-not-cleared', 'last target completed')
        _check_disk(out, root, appended, 'after schedule.complete')
    finally:
        world.rm(root)
        sched.que = []
    return out


def exec_append(case):
    '''append only (volume): nothing lost, right file'''
    out = core.Outcome()
    clock = world.Clock()
    root, chron = _setup(clock)
    try:
        appended = []
        files = set()
        fault = case.get('fault')
        for n, e in enumerate(case['entries']):
            rec = _mk_record(e)
            if fault and n == fault[0] % len(case['entries']):
                # one transient failure of the n-th open() inside this
                # append (too many open files); the caller tries again
                calls = [0]

                def faulty(*a, _calls=calls, **k):
                    _calls[0] += 1
                    if _calls[0] == fault[1] + 1:
                        import errno
                        raise OSError(errno.EMFILE, 'Too many open files '
                                      '(injected)', str(a[0]))
                    return open(*a, **k)

                chron.open = faulty
                try:
                    chron.append(rec)
                    out.label('fault-not-reached'
                              if calls[0] <= fault[1] else 'fault-swallowed')
                except OSError:
                    out.label('append-raised-and-was-retried')
                    del chron.open
                    chron.append(rec)
                finally:
                    if 'open' in chron.__dict__:
                        del chron.open
                if len(appended) and calls[0] > fault[1]:
                    out.nontrivial = True
            else:
                chron.append(rec)
            appended.append(rec)
            f = (rec['timing']['completed'].split(' ')[0], rec['runid'])
            if f in files:
                out.nontrivial = True
                out.label('shared-journal-file')
            files.add(f)
            _check_disk(out, root, appended, f'after append {len(appended)}')
            if out.failures:
                break
    finally:
        world.rm(root)
    return out


_append_case = st.fixed_dictionaries(
    {'entries': st.lists(_entry, min_size=2, max_size=12),
     'fault': st.one_of(st.none(), st.tuples(st.integers(0, 11),
                                             st.integers(0, 1)).map(list))}
)


# ---- part "api": the history endpoints of the front end


def exec_api(case):
    '''dawgie.fe.api.schedule.succeeded / failed with URL-style arguments
    (ISO strings) against the brute-force window'''
    import json

    import dawgie.fe.api.schedule as api

    out = core.Outcome()
    clock = world.Clock()
    root, chron = _setup(clock)
    real_dt = api.datetime
    try:
        appended = []
        for e in case['entries']:
            rec = _mk_record(e)
            chron.append(rec)
            appended.append(rec)
        now = instant(*case['last']) + datetime.timedelta(
            seconds=case['now_off'] + 1)
        clock.now = now
        # bounds: a generated instant, or exactly the completion time of an
        # entry (what a paging client sends back)
        def bound(b):
            if b is None:
                return None
            if b[0] == 'at':
                e = case['entries'][b[1] % len(case['entries'])]
                return instant(*e['t'])
            return instant(*b[1])

        after, before = bound(case['after']), bound(case['before'])
        limit = case['limit']
        fn = api.succeeded if case['succeeded'] else api.failed
        status = 'success' if case['succeeded'] else 'failure'
        nowbox = [now]

        def ask():
            def text(b):
                # the same instant written with another UTC offset
                off = case.get('offset', 0)
                if off:
                    out.label('bound-written-with-a-utc-offset')
                return b.astimezone(datetime.timezone(
                    datetime.timedelta(minutes=off))).isoformat()

            raw = fn(after=[text(after)] if after else None,
                     before=[text(before)] if before else None,
                     limit=[str(limit)] if limit else None)
            ans = json.loads(raw)
            if ans.get('status') != 'success':
                out.fail('api/query-failed', str(ans)[:300])
                return False
            res = ans['content']
            lo = after or datetime.datetime(1980, 1, 1, tzinfo=datetime.UTC)
            hi = before or nowbox[0]

            def comp(e):
                return datetime.datetime.fromisoformat(e['timing']['completed'])

            window = sorted((r for r in appended
                             if lo < comp(r) < hi and r['status'] == status),
                            key=comp, reverse=True)
            got = [_key(e) for e in res]
            want = [_key(r) for r in window]
            mode = ('A' if after else '') + ('B' if before else '') + (
                'L' if limit else '')
            out.label('mode-' + (mode or 'none'))
            if case['before'] and case['before'][0] == 'at' or (
                    case['after'] and case['after'][0] == 'at'):
                out.nontrivial = True
                out.label('bound-equals-a-completion-time')
            stray = [k for k in got if k not in want]
            if stray:
                out.fail('api/outside-window-or-outcome',
                         f'mode={mode} after={after} before={before} '
                         f'status={status}: {stray[:2]}')
            times = [k[0] for k in got]
            if times != sorted(times, reverse=True):
                out.fail('api/not-newest-first', f'{times[:6]}')
            if mode in ('AB', 'ABL', 'A', 'B') and not stray:
                if sorted(got) != sorted(want):
                    missing = [k for k in want if k not in got]
                    out.fail('api/window-not-exact',
                             f'mode={mode} after={after} before={before} '
                             f'missing={missing[:2]} got={len(got)} '
                             f'want={len(want)}')
            elif mode in ('BL', 'L') and not stray:
                n = min(limit, len(want))
                if got != want[:n] and sorted(k[0] for k in got) != sorted(
                        k[0] for k in want[:n]):
                    out.fail('api/truncation-not-newest',
                             f'mode={mode} limit={limit}: {len(got)} entries, '
                             f'newest expected {len(want[:n])}')
            return True

        if not ask() or out.failures:
            return out
        if case.get('again'):
            # other readers of the history in between: the statistics
            # endpoint of the front end (it edits what find() gave it) and a
            # caller that scribbles on its results; the same question must
            # get the same answer afterwards
            import dawgie.context
            import dawgie.fe.api as feapi
            import dawgie.pl.schedule as sched

            out.label('asked-again-after-other-readers')
            old_boot = getattr(dawgie.context, 'boot_time', None)
            dawgie.context.boot_time = datetime.datetime(
                1980, 1, 1, tzinfo=datetime.UTC)
            saved_que, sched.que = sched.que, []
            try:
                for task in sorted({r['task'] for r in appended}):
                    feapi.df_model_statistics([task])
                for ok in (True, False):
                    for e in chron.find(succeeded=ok, limit=50):
                        e['status'] = 'scribbled'
                        e['timing']['completed'] = '1999-01-01 00:00:00'
            finally:
                sched.que = saved_que
                dawgie.context.boot_time = old_boot
            # work goes on meanwhile: more completions, also on days that
            # had no journal when the first question was asked
            for e in case.get('more') or ():
                rec = _mk_record(e)
                chron.append(rec)
                appended.append(rec)
            if case.get('more'):
                out.label('more-completions-before-asking-again')
                last = max(datetime.datetime.fromisoformat(
                    r['timing']['completed']) for r in appended)
                if last >= nowbox[0]:
                    nowbox[0] = last + datetime.timedelta(seconds=1)
                    clock.now = nowbox[0]
            ask()
    finally:
        api.datetime = real_dt
        world.rm(root)
    return out


@st.composite
def _api_case(draw):
    entries = draw(st.lists(_entry, min_size=1, max_size=10))
    b = st.one_of(
        st.tuples(st.just('at'), st.integers(0, 9)).map(list),
        st.tuples(st.just('t'), _inst).map(list),
    )
    mode = draw(st.sampled_from(['both', 'both', 'before', 'before+limit',
                                 'limit', 'after']))
    after = draw(b) if mode in ('both', 'after') else None
    before = draw(b) if 'before' in mode or mode == 'both' else None
    limit = draw(st.integers(1, 6)) if 'limit' in mode else None
    last = max(instant(*e['t']) for e in entries)
    return {
        'entries': entries, 'after': after, 'before': before, 'limit': limit,
        'succeeded': draw(st.booleans()),
        'again': draw(st.booleans()),
        'more': draw(st.lists(_entry, max_size=4)),
        'offset': draw(st.sampled_from([0, 0, 120, -330, 60])),
        'now_off': draw(st.integers(0, 86400)),
        'last': [(last - EPOCH).days, (last - EPOCH).seconds,
                 (last - EPOCH).microseconds],
    }


# ---- part "pipeline": every reply delivered to the farm is recorded once


def exec_pipeline(case):
    '''generated engine x history on the real schedule+farm; the journal files
    (read with plain json) must hold exactly one entry per delivered reply'''
    from .. import sim

    delivered = []  # (task, target, runid, outcome)
    state = {'root': None}

    def on_event(s, ev, out):
        state['root'] = s.root
        if ev['op'][0] != 'rep' or 'unit' not in ev:
            return
        u = ev['unit']
        rec = (u.jobid, u.target, u.runid, ev['outcome'])
        disk = sorted(
            (e['task'], e['target'], e['runid'], e['status'])
            for _d, _f, e in _read_journals(s.root)
        )
        want = sorted(delivered + [rec])
        if disk != want:
            site = ''
            if u.key in s.lost_keys and not ev['job_queued']:
                # known finding: see known_findings.json
                site = '@doing-cleared-by-upstream-purge'
            missing = [k for k in want if disk.count(k) < want.count(k)]
            extra = [k for k in disk if disk.count(k) > want.count(k)]
            out.fail(
                'pipeline/reply-not-recorded-once' + site,
                f'reply {rec}: journal missing={missing[:2]} '
                f'extra={extra[:2]} errors={ev["errors"]}',
            )
            # keep comparing later replies against what the journal holds
            if disk.count(rec):
                delivered.append(rec)
        else:
            delivered.append(rec)
        if len(delivered) >= 3:
            out.nontrivial = True
        if ev['outcome'] != 'success':
            out.label('non-success-reply')

    def at_end(s, out):
        s.clock.advance(1)  # the window is open: completed < now
        res = s.chron.find(limit=1000, succeeded=True) + s.chron.find(
            limit=1000, succeeded=False
        )
        got = sorted((e['task'], e['target'], e['runid'], e['status'])
                     for e in res)
        # find(succeeded=False) returns failures only; invalid is neither
        want = sorted(d for d in delivered if d[3] != 'invalid')
        if got != want:
            out.fail('pipeline/find-differs-from-delivered',
                     f'find: {len(got)} entries, delivered {len(want)}')

    return sim.run_history(case, on_event, at_end, pid=ID)


def _pipeline_strategy():
    from .. import sim

    return sim.histories(weights={'rereq': 2, 'requp': 2}, max_ops=40)


def parts(tier):
    q = tier == 'quick'
    return [
        core.Part('find', exec_find, strategy=_find_case(),
                  cases=2400 if q else 60000, batch=300),
        core.Part('append', exec_append, strategy=_append_case,
                  cases=400 if q else 6000, batch=200),
        core.Part('complete', exec_complete, strategy=_complete_case,
                  cases=400 if q else 6000, batch=200),
        core.Part('api', exec_api, strategy=_api_case(),
                  cases=1200 if q else 30000, batch=300),
        core.Part('pipeline', exec_pipeline, strategy=_pipeline_strategy,
                  cases=800 if q else 20000, batch=200),
    ]
