'''C03 - each released unit runs once at a time, its result is never dropped.'''

from .. import core, sim

ID = 'C03'
LEVEL = 'exploration'
RULE = (
    'Generated: engine spec (<=6 algorithms, <=3 packages, all kinds) x 0-3 '
    'targets x history of 4-40 operations over the real schedule+farm: run '
    'requests (biased towards units that are pending or executing), dispatch '
    'ticks, worker joins/leaves, and worker replies for any handed unit in '
    'any order with outcome success (any subset of values new) / failure / '
    'invalid. Non-trivial: the history contains a request naming a unit '
    'that is in flight at that moment, or two targets of one algorithm in '
    'flight together. Distinct = SHA-1 of canonical case JSON.'
    ' Part faults adds one failing db.next() per dbfault op; in every part w'
    'orker messages reach the farm whole or in pieces of 1..1448 bytes (cas'
    'e key seg). '
)
ASSUMPTIONS = [
    'workers answer each task at most once and only tasks they were handed '
    '(what worker.cluster.execute does)',
    'the life-cycle stays active (FSM stand-in); C10-C12 cover the FSM',
    'database backend stubbed to targets()/next(); promotion disabled '
    '(default configuration)',
]


def check_event(s, ev, out):
    # (i) at most one execution of (algorithm, target) in flight
    seen = {}
    for u in s.inflight():
        if u.key in seen:
            site = (
                '@doing-cleared-by-upstream-purge'
                if u.key in s.lost_keys else ''
            )
            out.fail(
                'inflight/duplicate-execution' + site,
                f'{u} released at step {u.step} while {seen[u.key]} (step '
                f'{seen[u.key].step}) is still unanswered; op={ev["op"]}',
            )
            break
        seen[u.key] = u
    # (ii) handed to at most one worker, otherwise still queued
    ntask = sum(w.tasks for w in s.workers)
    nhanded = sum(1 for u in s.units if u.handed)
    if ntask != nhanded:
        out.fail('handout/task-frames', f'{ntask} task frames, {nhanded} handed')
    for w in s.workers:
        if w.tasks > 1:
            out.fail('handout/two-tasks-one-worker', f'{w.tasks}')
    queued = [u for u in s.units if not u.handed and not u.answered]
    in_cluster = [
        (m.jobid, m.target or '__all__', m.runid) for m in s.farm._cluster
    ]
    if sorted((u.jobid, u.target, u.runid) for u in queued) != sorted(in_cluster):
        out.fail(
            'handout/queue-conservation',
            f'released-not-handed={queued} farm._cluster={in_cluster}',
        )
    # (ii') what the scheduler counts as executing is somewhere: handed,
    # queued in the farm, or held by a dispatch that failed half-way
    for tag, n in s.nodes.items():
        gone = set(n.get('doing')) - s.executing(tag)
        if gone:
            out.fail(
                'handout/released-unit-vanished',
                f'{tag}{sorted(gone)} is marked executing by the scheduler '
                f'but is neither handed to a worker nor queued in the farm '
                f'(_jobs={[j.tag for j in s.farm._jobs]}); op={ev["op"]} '
                f'fault={ev.get("fault")}')
            break
    # (iv) crew view == handed and unanswered
    busy = sorted(b.split(' duration:')[0] for b in s.farm.crew()['busy'])
    want = sorted(f'{u.jobid}[{u.target}]' for u in s.handed())
    if busy != want:
        out.fail('crew/busy-differs', f'crew={busy} in-flight={want} op={ev["op"]}')
    # (iii') a failure upstream must not take the job of a unit that is
    # still executing out of the queue: its reply could not be applied
    for v in ev.get('purged_unqueued', []):
        out.fail(
            'purge/executing-job-dropped-from-queue',
            f'{v} is in flight; the failure of {ev.get("unit")} purged it and '
            f'its job is no longer in schedule.que '
            f'({[j.tag for j in s.sched.que]}): its reply will be dropped',
        )
        break
    # (iii) a reply is applied exactly once
    if ev['op'][0] == 'rep' and 'unit' in ev:
        u = ev['unit']
        # known finding: the unit's 'doing' entry was cleared by an upstream
        # purge AND the job had left the queue before this reply arrived
        lost = ('@doing-cleared-by-upstream-purge'
                if u.key in s.lost_keys and not ev['job_queued'] else '')
        comp = [c for c in ev['calls'] if c[0] == 'complete']
        app = [c for c in ev['calls'] if c[0] == 'append']
        upd = [c for c in ev['calls'] if c[0] == 'update']
        pur = [c for c in ev['calls'] if c[0] == 'purge']
        want_c = ('complete', u.jobid, u.target, u.runid, ev['outcome'])
        if comp != [want_c]:
            out.fail(
                'reply/completion-not-recorded-once'
                + lost,
                f'reply for {u} ({ev["outcome"]}) -> complete calls {comp}; '
                f'errors={ev["errors"]}',
            )
        if app != [('append', u.jobid, u.target, u.runid, ev['outcome'])]:
            out.fail(
                'reply/history-not-appended-once'
                + lost,
                f'reply for {u} -> chronicle appends {app}',
            )
        if ev['outcome'] == 'success' and not lost:
            from .c02 import propagation_gaps

            for d, t, site in propagation_gaps(s, ev):
                out.fail(
                    'reply/new-values-not-propagated' + site,
                    f'{u} reported new {sorted(ev["newset"])}: {d}[{t}] '
                    f'declares one of them but is not pending afterwards '
                    f'(todo={sorted(ev["after"][d][0])}, doing='
                    f'{sorted(ev["after"][d][1])})',
                )
        if ev['outcome'] == 'success':
            if [c[:2] for c in upd] != [('update', u.jobid)] or pur:
                out.fail(
                    'reply/report-not-propagated-once'
                    + lost,
                    f'reply for {u} -> update {upd} purge {pur}',
                )
        elif [c[:3] for c in pur] != [('purge', u.jobid, u.target)] or upd:
            out.fail(
                'reply/failure-not-purged-once'
                + lost,
                f'reply for {u} -> update {upd} purge {pur}',
            )
    # classification
    if ev['op'][0] in ('req', 'rereq', 'reqall', 'requp'):
        for tag in ev['names']:
            ex = s.executing(tag)
            if ex & set(s._targets_of(tag, ev['targets'])):
                out.nontrivial = True
                out.label('request-while-in-flight')
    per_alg = {}
    for u in s.inflight():
        per_alg.setdefault(u.jobid, set()).add(u.target)
    if any(len(v) > 1 for v in per_alg.values()):
        out.nontrivial = True
        out.label('two-targets-of-one-alg-in-flight')
    if ev['errors']:
        for e in ev['errors']:
            if e[0] == 'exception':
                out.fail('farm/swallowed-exception', f'{e} op={ev["op"]}')


def execute(case):
    return sim.run_history(case, check_event, pid=ID)


def _cluster():
    from .c05 import _cluster_cases

    return _cluster_cases()


def parts(tier):
    q = tier == 'quick'
    return [
        core.Part(
            'history', execute,
            strategy=sim.histories(weights={'rereq': 4, 'leave': 1}),
            cases=1600 if q else 50000, batch=200,
        ),
        core.Part(
            'faults', execute,
            strategy=sim.histories(weights={'rereq': 3, 'dbfault': 3}),
            cases=400 if q else 12500, batch=200,
        ),
        core.Part('cluster', execute, strategy=_cluster(),
                  cases=120 if q else 3000, batch=40),
        core.Part(
            'timers', execute,
            strategy=sim.histories(weights={'rereq': 4, 'leave': 1,
                                            'timer': 8},
                                   spec_kw={'events': True}),
            cases=400 if q else 12500, batch=200,
        ),
    ]
