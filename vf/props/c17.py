'''C17 - search: exact matches, run-ID order, pages, run-ID normalisation.

Oracle: brute-force filter over the entries the harness itself put into the
store (names + versions known to the harness), cross-checked against
dawgie.db._prime_keys(); pages are compared with slices of the full result.
'''

from hypothesis import strategies as st

from .. import core, rig

ID = 'C17'
LEVEL = 'exploration'
RULE = (
    'Generated: a shelve store with 1-40 primary entries over small name '
    'pools containing prefix families (T/T1/TT, A/A1/AB, ...) and two '
    'versions per name, run IDs 0..9; then 1-8 requests per store, each with '
    'any combination of constraints (run-ID expression as string or as list '
    'of ints and Range objects: closed, open, overlapping, adjacent, empty; '
    'name lists incl. unknown names), an (index, limit) page or a facet '
    'column. Part scrub: run-ID expressions only (denotation before/after '
    'normalisation over 0..14). Non-trivial: a request whose run-ID '
    'expression contains a range matching a strict non-empty subset of the '
    'stored entries, or a page with index>0 inside the result (part find); '
    'an expression with two overlapping/adjacent ranges or an index covered '
    'by a range (part scrub). Distinct = SHA-1 of canonical case JSON.'
)
ASSUMPTIONS = [
    'shelve backend only (no PostgreSQL server offline)',
    'run ID -1 ("latest") is left out: it has no stated semantics',
    'a run-ID expression has at least one element (the front end maps an '
    'empty string to "no constraint")',
    'names registered with two versions count as distinct state vectors '
    '(the property does not speak about versions)',
    'facets are requested for targets/tasks/algs/svs only (what fe.api.facet '
    'offers)',
]

TARGETS = ['T', 'T1', 'TT']
TASKS = ['tk', 'tk2']
ALGS = ['A', 'A1', 'AB']
SVS = ['s', 's1']
VALS = ['v', 'v1']
VERS = ['1.0.0', '1.0.0', '1.0.0', '1.1.0']
MAXRUN = 12

_entry = st.tuples(
    st.integers(0, MAXRUN),
    st.sampled_from(TARGETS),
    st.sampled_from(TASKS),
    st.sampled_from(ALGS),
    st.sampled_from(VERS),
    st.sampled_from(SVS),
    st.sampled_from(VERS),
    st.sampled_from(VALS),
    st.sampled_from(VERS),
).map(list)

_rid = st.integers(0, MAXRUN + 2)
_range = st.one_of(
    st.tuples(_rid, _rid),
    st.tuples(_rid, st.none()),
    st.tuples(st.none(), _rid),
    st.tuples(st.none(), st.none()),
).map(list)
_elem = st.one_of(_rid, _range, _range)
_expr = st.fixed_dictionaries(
    {
        'form': st.sampled_from(['str', 'str', 'list']),
        'elems': st.lists(_elem, min_size=1, max_size=5),
        'pad': st.lists(st.sampled_from(['', ' ', '  ']), min_size=12,
                        max_size=12),
    }
)


def _names(pool):
    return st.one_of(
        st.none(),
        st.none(),
        st.lists(st.sampled_from(pool + ['ZZ']), min_size=1, max_size=3),
    )


_request = st.fixed_dictionaries(
    {
        'runids': st.one_of(st.none(), _expr, _expr),
        'targets': _names(TARGETS),
        'tasks': _names(TASKS),
        'algs': _names(ALGS),
        'svs': _names(SVS),
        'vals': st.one_of(st.none(), st.none(), _names(VALS)),
        'index': st.integers(0, 12),
        'limit': st.one_of(st.none(), st.integers(1, 8)),
        'facet': st.one_of(
            st.none(),
            st.none(),
            st.sampled_from(['targets', 'tasks', 'algs', 'svs']),
        ),
    }
)

_case = st.fixed_dictionaries(
    {
        'entries': st.lists(_entry, min_size=1, max_size=40),
        'requests': st.lists(_request, min_size=1, max_size=8),
    }
)


def render_expr(expr):
    '''(what is passed to Params.runids, reference denotation as predicate)'''
    from dawgie.db.basis import Range

    elems = expr['elems']
    if expr['form'] == 'str':
        toks = []
        for i, e in enumerate(elems):
            pad = expr['pad'][i % len(expr['pad'])]
            if isinstance(e, list):
                a = '' if e[0] is None else str(e[0])
                b = '' if e[1] is None else str(e[1])
                toks.append(f'{pad}{a}:{b}{pad}')
            else:
                toks.append(f'{pad}{e}')
        arg = ','.join(toks)
    else:
        arg = [
            Range(start=0 if e[0] is None else e[0], stop=e[1])
            if isinstance(e, list)
            else e
            for e in elems
        ]
    return arg


def denotes(elems, r):
    for e in elems:
        if isinstance(e, list):
            lo = 0 if e[0] is None else e[0]
            if r >= lo and (e[1] is None or r < e[1]):
                return True
        elif e == r:
            return True
    return False


def denotes_scrubbed(scrubbed, r):
    '''interpret the normalised list with the harness' own interval logic'''
    for e in scrubbed:
        if hasattr(e, 'start') and hasattr(e, 'stop'):
            if r >= e.start and (e.stop is None or r < e.stop):
                return True
        elif e == r:
            return True
    return False


def check_scrub(out, expr):
    from dawgie.db.basis import Params, SearchFacade

    arg = render_expr(expr)
    scrubbed = SearchFacade._scrub(Params(runids=arg)).runids
    want = {r for r in range(0, MAXRUN + 6) if denotes(expr['elems'], r)}
    got = {r for r in range(0, MAXRUN + 6) if denotes_scrubbed(scrubbed, r)}
    if want != got:
        out.fail(
            'scrub/denotation-changed',
            f'expr={arg!r} scrubbed={scrubbed!r} lost={sorted(want - got)} '
            f'gained={sorted(got - want)}',
        )
    rs = [e for e in expr['elems'] if isinstance(e, list)]
    for i, a in enumerate(rs):
        for b in rs[i + 1:]:
            alo, blo = a[0] or 0, b[0] or 0
            ahi = 10**6 if a[1] is None else a[1]
            bhi = 10**6 if b[1] is None else b[1]
            if alo < ahi and blo < bhi and alo <= bhi and blo <= ahi:
                out.nontrivial = True
                out.label('ranges-overlap-or-touch')
    for e in expr['elems']:
        if not isinstance(e, list) and denotes(rs, e):
            out.nontrivial = True
            out.label('index-inside-range')
    return scrubbed


def exec_scrub(case):
    out = core.Outcome()
    check_scrub(out, case)
    return out


def _populate(entries):
    from dawgie.db.shelve import util
    from dawgie.db.shelve.state import DBI

    dbi = DBI()
    model = []
    for run, tn, tsk, alg, algv, sv, svv, val, valv in entries:
        tid = util.append(tn, dbi.tables.target, dbi.indices.target)[1]
        kid = util.append(tsk, dbi.tables.task, dbi.indices.task)[1]
        aid = util.append(alg, dbi.tables.alg, dbi.indices.alg, kid,
                          util.LocalVersion(algv))[1]
        sid = util.append(sv, dbi.tables.state, dbi.indices.state, aid,
                          util.LocalVersion(svv))[1]
        vid = util.append(val, dbi.tables.value, dbi.indices.value, sid,
                          util.LocalVersion(valv))[1]
        dbi.tables.prime[str((run, tid, kid, aid, sid, vid))] = 'blob'
        model.append((run, tn, tsk, alg, algv, sv, svv, val, valv))
    return sorted(set(model))


def exec_find(case):
    import dawgie.db
    from dawgie.db.basis import Params

    out = core.Outcome()
    store = rig.ShelveRig()
    try:
        model = _populate(case['entries'])
        # the observation point named by the property agrees with the model
        pk = sorted(dawgie.db._prime_keys())
        mk = sorted(
            '.'.join([str(m[0]), m[1], m[2], m[3], m[5], m[7]]) for m in model
        )
        if pk != mk:
            out.fail('prime-keys/differ-from-model', f'{pk[:4]} vs {mk[:4]}')
        for req in case['requests']:
            runarg = None
            if req['runids'] is not None:
                check_scrub(out, req['runids'])
                runarg = render_expr(req['runids'])

            def ok(m, req=req):
                if req['runids'] is not None and not denotes(
                    req['runids']['elems'], m[0]
                ):
                    return False
                for col, key in ((1, 'targets'), (2, 'tasks'), (3, 'algs'),
                                 (5, 'svs'), (7, 'vals')):
                    if key == req['facet']:
                        continue
                    if req[key] and m[col] not in req[key]:
                        return False
                return True

            match = [m for m in model if ok(m)]
            kw = {k: req[k] for k in ('targets', 'tasks', 'algs', 'svs', 'vals')}
            if req['facet']:
                kw[req['facet']] = []
                col = {'targets': 1, 'tasks': 2, 'algs': 3, 'svs': 5}[
                    req['facet']]
                want = sorted({m[col] for m in match})
                got = dawgie.db.search().facet(Params(runids=runarg, **kw))
                out.label('facet')
                if list(got) != want:
                    out.fail(
                        'facet/differs-from-brute-force',
                        f'req={req} got={got} want={want}',
                    )
                continue
            # collapse to state-vector granularity (versions kept apart)
            svkeys = sorted({m[:7] for m in match})
            want = sorted(
                '.'.join([str(k[0]), k[1], k[2], k[3], k[5]]) for k in svkeys
            )
            params = Params(runids=runarg, **kw)
            full = dawgie.db.search().find(params)
            items = list(full.items)
            is_range = req['runids'] is not None and any(
                isinstance(e, list) for e in req['runids']['elems']
            )
            if is_range and 0 < len(match) < len(model):
                out.nontrivial = True
                out.label('range-matches-strict-subset')
            if match:
                out.label('nonempty-result')
            if sorted(items) != want:
                missing = [w for w in want if w not in items]
                extra = [i for i in items if i not in want]
                out.fail(
                    'find/items-differ'
                    + ('-with-range' if is_range else ''),
                    f'runids={runarg!r} kw={kw} missing={missing[:3]} '
                    f'extra={extra[:3]} got={len(items)} want={len(want)}',
                )
            runs = [int(i.split('.')[0]) for i in items]
            if runs != sorted(runs):
                out.fail('find/not-in-run-id-order', f'runs={runs[:10]}')
            if full.total != len(want):
                out.fail(
                    'find/total-wrong',
                    f'total={full.total} want={len(want)} runids={runarg!r}',
                )
            # page (index, limit)
            i, lim = req['index'], req['limit']
            page = dawgie.db.search().find(params, i, lim)
            expect = items[i:] if lim is None else items[i:i + lim]
            if 0 < i < len(items):
                out.nontrivial = True
                out.label('page-index>0')
            if list(page.items) != expect:
                out.fail(
                    'find/page-slice',
                    f'index={i} limit={lim} full={len(items)} '
                    f'page={list(page.items)[:4]} expect={expect[:4]}',
                )
            if page.total != full.total:
                out.fail('find/page-total', f'{page.total} != {full.total}')
            if lim is not None and items:
                cat = []
                j = 0
                while j < len(items):
                    cat.extend(dawgie.db.search().find(params, j, lim).items)
                    j += lim
                if cat != items:
                    out.fail(
                        'find/pages-do-not-concatenate',
                        f'limit={lim} full={len(items)} cat={len(cat)}',
                    )
    finally:
        store.close()
    return out


def exec_api(case):
    '''the front-end route: dawgie.fe.api.database.search with URL-style
    arguments, asked before and after more matching entries arrive under run
    IDs that are not new'''
    import json

    import dawgie.db
    import dawgie.fe.api.database as api

    out = core.Outcome()
    store = rig.ShelveRig()
    try:
        model = _populate(case['entries'])
        for phase in (0, 1):
            if phase == 1:
                top = max(m[0] for m in model)
                more = [[min(e[0], top)] + e[1:] for e in case['more']]
                model = sorted(set(model) | set(_populate(more)))
                out.label('entries-added-between-identical-requests')
            for req in case['requests']:
                expr = req['runids']
                runarg = None
                if expr is not None:
                    runarg = render_expr(dict(expr, form='str'))

                def ok(m, req=req, expr=expr):
                    if expr is not None and not denotes(expr['elems'], m[0]):
                        return False
                    for col, key in ((1, 'targets'), (2, 'tasks'),
                                     (3, 'algs'), (5, 'svs')):
                        if req[key] and m[col] not in req[key]:
                            return False
                    return True

                match = [m for m in model if ok(m)]
                svkeys = sorted({m[:7] for m in match})
                want = ['.'.join([str(k[0]), k[1], k[2], k[3], k[5]])
                        for k in svkeys]
                args = {k: [','.join(req[k])] if req[k] else None
                        for k in ('targets', 'tasks', 'algs', 'svs')}
                i, lim = req['index'], req['limit']
                raw = api.search(
                    runids=[runarg] if runarg else None,
                    index=[str(i)], limit=[str(lim)] if lim else None, **args)
                ans = json.loads(raw)
                if ans.get('status') != 'success':
                    out.fail('api/search-failed', f'{req}: {ans}')
                    continue
                got = ans['content']
                full = sorted(want, key=lambda w: int(w.split('.')[0]))
                runs_full = [int(w.split('.')[0]) for w in full]
                page = got['items']
                runs = [int(w.split('.')[0]) for w in page]
                n = len(full)
                if got['total'] != n:
                    out.fail('api/total-wrong',
                             f'phase {phase} {req}: total {got["total"]} '
                             f'want {n}')
                exp_runs = runs_full[i:] if lim is None else runs_full[i:i + lim]
                if runs != exp_runs or not set(page) <= set(full):
                    out.fail(
                        'api/page-differs',
                        f'phase {phase} runids={runarg!r} '
                        f'{ {k: v for k, v in args.items() if v} } index={i} '
                        f'limit={lim}: run IDs {runs[:8]} want {exp_runs[:8]}',
                    )
                if phase == 1 and match:
                    out.nontrivial = True
            if out.failures:
                break
    finally:
        store.close()
    return out


_api_case = st.fixed_dictionaries({
    'entries': st.lists(_entry, min_size=1, max_size=30),
    'more': st.lists(_entry, min_size=1, max_size=10),
    'requests': st.lists(_request, min_size=1, max_size=4),
})


def parts(tier):
    q = tier == 'quick'
    return [
        core.Part('scrub', exec_scrub, strategy=_expr,
                  cases=4000 if q else 200000, batch=500),
        core.Part('find', exec_find, strategy=_case,
                  cases=800 if q else 24000, batch=100),
        core.Part('api', exec_api, strategy=_api_case,
                  cases=400 if q else 12000, batch=100),
    ]
