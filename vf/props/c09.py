'''C09 - the derived task graph is faithful to the declared dependencies.

Oracle: engines.RefGraph (from the spec alone) versus dawgie.pl.dag.Construct
built from the factories that the real scanner found in the materialised
package.
'''

import warnings

from .. import core, engines

ID = 'C09'
LEVEL = 'exploration'
RULE = (
    'Generated: acyclic engine specs (1-4 packages, 1-8 algorithms of kinds '
    'task/analysis/regress, 1-3 state vectors x 1-3 values, each algorithm '
    'drawing 0-3 inputs from strictly earlier algorithms at algorithm, '
    'state-vector or value level, optional feedback references to later '
    'algorithms, name pools with prefix families) written to disk in both '
    'factory styles and scanned by dawgie.pl.scan. Non-trivial: >=3 '
    'algorithms and (a diamond, or a state-vector/value-level reference, or '
    'a feedback reference). Distinct = SHA-1 of the canonical spec.'
    ' Part layout: the same with class-scanned packages that bring their own'
    ' factory function, packages that say DAWGIE_IGNORE = False and a neste'
    'd base package (org.engine). '
)
ASSUMPTIONS = [
    'names contain no "." (architecture rule 4) and algorithm names are '
    'unique within a package',
    'analyzers/regressions reference inputs at state-vector or value level '
    'only (compliance rule 3)',
    'no algorithm declares one of its own values as input',
    'graph rendering through the "dot" binary is stubbed (not part of the '
    'property); Node.graph, which assigns levels, still runs',
]


def _collect(roots):
    seen = {}
    order = []
    stack = list(roots)
    while stack:
        n = stack.pop()
        if id(n) in seen:
            continue
        seen[id(n)] = n
        order.append(n)
        stack.extend(list(n))
    return order


def _edges(nodes, self_loops=True):
    return {
        (n.tag, c.tag) for n in nodes for c in n if self_loops or c.tag != n.tag
    }


def compare(out, spec, ref, c):
    # ---- algorithm granularity
    nodes = _collect(c.at)
    by_tag = {}
    for n in nodes:
        by_tag.setdefault(n.tag, []).append(n)
    if sorted(by_tag) != sorted(ref.tag):
        out.fail(
            'at/nodes',
            f'missing={sorted(set(ref.tag) - set(by_tag))} '
            f'extra={sorted(set(by_tag) - set(ref.tag))}',
        )
    for t, ns in by_tag.items():
        if len(ns) != 1:
            out.fail('at/duplicate-node', f'{t} has {len(ns)} node objects')
    got = _edges(nodes)
    if got != ref.aedges:
        out.fail(
            'at/edges',
            f'missing={sorted(ref.aedges - got)[:4]} '
            f'extra={sorted(got - ref.aedges)[:4]}',
        )
    if {n.tag for n in c.at} != set(ref.roots()):
        out.fail('at/roots', f'{sorted({n.tag for n in c.at})} vs {ref.roots()}')
    for n in nodes:
        if n.tag not in ref.ancestors:
            continue
        anc = set(n.get('ancestry'))
        if anc != ref.ancestors[n.tag]:
            out.fail(
                'at/ancestry',
                f'{n.tag}: missing={sorted(ref.ancestors[n.tag] - anc)} '
                f'extra={sorted(anc - ref.ancestors[n.tag])}',
            )
        par = {p.tag for p in n.get('parents')}
        if par != ref.parents[n.tag]:
            out.fail('at/parents', f'{n.tag}: {sorted(par)} vs '
                     f'{sorted(ref.parents[n.tag])}')
        fb = {f.tag for f in n.get('feedback')}
        want = {ref.trim(v, 2) for v in ref.fb_inputs[n.tag]}
        if fb != want:
            out.fail('at/feedback-attr', f'{n.tag}: {sorted(fb)} vs {sorted(want)}')
    # ---- state-vector granularity
    snodes = _collect(c.svt)
    stags = {ref.trim(v, 3) for vs in ref.values.values() for v in vs}
    if {n.tag for n in snodes} != stags:
        out.fail('svt/nodes', f'{sorted({n.tag for n in snodes} ^ stags)[:4]}')
    if len({n.tag for n in snodes}) != len(snodes):
        out.fail('svt/duplicate-node', '')
    got = _edges(snodes)
    if got != ref.svedges:
        out.fail(
            'svt/edges',
            f'missing={sorted(ref.svedges - got)[:4]} '
            f'extra={sorted(got - ref.svedges)[:4]}',
        )
    # ---- value granularity
    vnodes = _collect(c.vt)
    vtags = {v for vs in ref.values.values() for v in vs}
    if {n.tag for n in vnodes} != vtags:
        out.fail('vt/nodes', f'{sorted({n.tag for n in vnodes} ^ vtags)[:4]}')
    if len({n.tag for n in vnodes}) != len(vnodes):
        out.fail('vt/duplicate-node', '')
    got = _edges(vnodes)
    if got != ref.vedges:
        out.fail(
            'vt/edges',
            f'missing={sorted(ref.vedges - got)[:4]} '
            f'extra={sorted(got - ref.vedges)[:4]}',
        )
    vparents = {}
    for p, ch in ref.vedges:
        vparents.setdefault(ch, set()).add(p)
    for n in vnodes:
        if n.tag not in vtags:
            continue  # reported by vt/nodes above
        want = ref._closure(n.tag, {**{v: set() for v in vtags}, **vparents})
        if set(n.get('ancestry')) != want:
            out.fail('vt/ancestry', f'{n.tag}: {sorted(set(n.get("ancestry")) ^ want)[:4]}')
            break
    # ---- task (package) granularity, self loops ignored
    tnodes = _collect(c.tt)
    ttags = {ref.trim(t, 1) for t in ref.tag}
    if {n.tag for n in tnodes} != ttags:
        out.fail('tt/nodes', f'{sorted({n.tag for n in tnodes} ^ ttags)}')
    got = _edges(tnodes, self_loops=False)
    want = {(a, b) for a, b in ref.tedges if a != b}
    if got != want:
        out.fail('tt/edges', f'missing={sorted(want - got)} extra={sorted(got - want)}')
    # ---- feedback map
    fbs = c.feedbacks
    if set(fbs) != set(ref.feedbacks):
        out.fail('feedbacks/keys', f'{sorted(set(fbs) ^ set(ref.feedbacks))}')
    for v, consumers in fbs.items():
        # every algorithm that declares the value in feedback(), no other
        # (the map holds names of values of the consuming algorithms)
        if isinstance(consumers, str):
            consumers = {consumers}
        got = {ref.trim(c, 2) for c in consumers}
        if v in ref.feedbacks and got != ref.feedbacks[v]:
            out.fail('feedbacks/consumer', f'{v} -> {sorted(got)}, declared '
                     f'by {sorted(ref.feedbacks[v])}')


def classify(out, spec, ref):
    n = len(spec['algs'])
    multi = any(
        r['level'] != 'alg' for a in spec['algs'] for r in a['inputs']
    )
    fb = any(a['feedback'] for a in spec['algs'])
    dia = ref.has_diamond()
    out.label('style-' + spec['style'])
    if any(spec.get('own') or []):
        out.label('package-with-own-factory')
    if any(a.get('twin') is not None for a in spec['algs']):
        out.label('same-class-name-in-two-modules')
    if any(spec.get('ignore_flag') or []):
        out.label('package-says-ignore-false')
    if spec.get('base_depth', 1) > 1:
        out.label('nested-base-package')
    if dia:
        out.label('diamond')
    if multi:
        out.label('sv-or-value-level-ref')
    if fb:
        out.label('feedback')
    if ref.max_depth() >= 3:
        out.label('depth>=3')
    for k in {a['kind'] for a in spec['algs']}:
        out.label('has-' + k)
    if len({a['pkg'] for a in spec['algs']}) > 1:
        out.label('multi-package')
    out.nontrivial = n >= 3 and (dia or multi or fb)


def execute(spec):
    import dawgie.pl.dag

    out = core.Outcome()
    with engines.loaded(spec) as eng:
        with warnings.catch_warnings():
            warnings.simplefilter('ignore')
            c = dawgie.pl.dag.Construct(eng.factories)
        classify(out, spec, eng.ref)
        compare(out, spec, eng.ref, c)
    return out


def parts(tier):
    q = tier == 'quick'
    return [
        core.Part('graph', execute, strategy=engines.specs(events=True),
                  cases=3000 if q else 100000, batch=250),
        # engines that use the scanner's extension point (a package brings
        # its own factory function) and / or live in a nested base package
        core.Part('layout', execute,
                  strategy=engines.specs(
                      events=True, own=True, dotted=True, flags=True,
                      twins=True,
                      styles=('legacy', 'registry', 'registry')),
                  cases=1500 if q else 40000, batch=250),
    ]
