'''C19 - the front end never serves files outside its roots nor commands to
strangers.

Part static: a generated site (two roots, files, directories, index pages,
symlinks pointing inside and outside, look-alike sibling directories) with
uniquely marked secret files outside both roots; request paths from a segment
grammar plus paths aimed at every secret.  Oracle: no response contains a
secret's marker.
Part endpoints: every DynamicContent leaf of the real route tree x HTTP method
x certificate x clients configured x access hook.  Oracle: handlers are spies;
a handler runs only after security.sanctioned said yes for its URI, never for
a command without a certificate when clients are configured, never when the
hook fails.
'''

import functools
import itertools
import os
import re
import sys
import types

from hypothesis import strategies as st

from .. import core, world

ID = 'C19'
LEVEL = 'exploration'
RULE = (
    'Part static: site layout (root placement incl. nested and look-alike '
    'sibling names, optional files/dirs/index pages/symlinks to inside and '
    'outside) x 1-10 request paths built from segments (.., ., empty, '
    '%2e%2e, names of files, dirs, symlinks, roots and siblings, query and '
    'fragment suffixes, repeated slashes) or aimed at a secret through ../ '
    'chains and symlinks. Non-trivial: some requested path, joined to a '
    'root and resolved by os.path.realpath, is an existing file (or a '
    'directory with an index.html) outside both roots. Part endpoints '
    'enumerates every registered endpoint x 4 methods x cert x clients x 11 '
    'hooks; non-trivial: the endpoint is a command. Distinct = SHA-1 of the '
    'case JSON.'
    ' Static part also replaces public files by links to a secret between re'
    'quests and repeats the earlier requests; endpoints part also loads the'
    ' client list from real PEM files (valid / expired / mixed). '
    ' Aimed requests also go through linked directories inside a root (dl_o'
    'ut/<file>). '
)
ASSUMPTIONS = [
    'the request URI reaches _static undecoded (twisted passes request.uri '
    'raw); static service driven through fe._static and '
    'StaticContent.render_GET with a stand-in request object',
    'a file whose real path (symlinks resolved) lies outside both resolved '
    'roots counts as outside, wherever the link that leads to it sits',
    'commands = endpoints whose last URI segment is run, reset, submit or '
    'snapshot (new /api and legacy /app URIs)',
    'handlers are replaced by spies (they are never executed); the '
    'certificate is a stand-in object: the built-in rule only tests for None',
    'a hook that cannot be looked up (missing module / attribute) counts as '
    'an error of the access hook: access must be denied',
]

MARK = 'SECRET-CONTENT-'

# ---------------------------------------------------------------- static

ROOT_LAYOUTS = [
    # (fe root, site root) relative to the base directory
    ('fe', 'site'),
    ('fe', 'fe2'),
    ('fe', 'fe/site'),
    ('a/fe', 'site'),
    ('a/b/fe', 'a/site'),
    ('site/fe', 'site'),
    ('fe', 'a/b/site'),
]

SEGMENTS = [
    '..', '..', '..', '.', '', '%2e%2e', '%2E%2e', '..%2f', '...', '~',
    'a.txt', 'index.html', 'd', 'd2', 'b.txt', 'ln_in', 'ln_out', 'dl_out',
    'dl_in', 'secret.txt', 'other', 'old.txt', 'fe', 'site', 'fe2', 'a', 'b',
    'fe-keys', 'fe.bak', 'site2', 'top.txt', 'etc', 'passwd',
]


@st.composite
def _static_case(draw):
    layout = draw(st.integers(0, len(ROOT_LAYOUTS) - 1))
    opt = {k: draw(st.booleans()) for k in (
        'fe_ln_out', 'fe_dl_out', 'fe_d2_index_out', 'site_ln_out',
        'site_dl_out', 'site_d2_index_out', 'fe_index_out', 'ln_in',
        'dl_in', 'sibling_keys', 'sibling_bak', 'site_sibling', 'isdep',
        'fe_d', 'site_d',
    )}
    seg = st.sampled_from(SEGMENTS)
    free = st.tuples(
        st.sampled_from(['', '/', '//', '/./']),
        st.lists(seg, min_size=1, max_size=7),
        st.sampled_from(['', '', '', '/', '?x=1', '#f', '/.', '/..']),
    ).map(lambda t: t[0] + '/'.join(t[1]) + t[2])
    aimed = st.tuples(st.just('aim'), st.integers(0, 40), st.integers(0, 9),
                      st.sampled_from(['', '', '/', '?x=1'])).map(list)
    # the site changes while the service runs: a public file is replaced by
    # a link that leads outside; every earlier request is then repeated
    swap = st.tuples(st.just('swap'),
                     st.sampled_from(['a.txt', 'index.html', 'd/index.html',
                                      'd/b.txt']),
                     st.integers(0, 1)).map(list)
    public = st.tuples(
        st.sampled_from(['/', '//']),
        st.sampled_from(['a.txt', 'index.html', 'd/index.html', 'd/b.txt',
                         'd/', 'd', '']),
    ).map(lambda t: t[0] + t[1])
    paths = draw(st.one_of(
        st.lists(st.one_of(free, aimed, aimed), min_size=1, max_size=10),
        st.lists(st.one_of(free, aimed, public, public, swap), min_size=2,
                 max_size=10)))
    return {'layout': layout, 'opt': opt, 'paths': paths}


def _write(fn, text):
    os.makedirs(os.path.dirname(fn), exist_ok=True)
    with open(fn, 'wt', encoding='utf-8') as f:
        f.write(text)


def _build_site(base, case):
    '''returns (fe, site, secrets: {path: marker})'''
    fe_rel, site_rel = ROOT_LAYOUTS[case['layout']]
    fe = os.path.join(base, fe_rel)
    site = os.path.join(base, site_rel)
    opt = case['opt']
    secrets = {}
    n = [0]

    def secret(rel):
        n[0] += 1
        p = os.path.join(base, rel)
        _write(p, f'{MARK}{n[0]} {rel}\n')
        secrets[p] = f'{MARK}{n[0]}'
        return p

    s_top = secret('top.txt')
    s_other = secret('other/secret.txt')
    secret('other/index.html')
    if opt['sibling_keys']:
        secret(fe_rel + '-keys/secret.txt')
        secret(fe_rel + '-keys/index.html')
    if opt['sibling_bak']:
        secret(fe_rel + '.bak/old.txt')
    if opt['site_sibling']:
        secret(site_rel + '2/secret.txt')
    for root, tag in ((fe, 'fe'), (site, 'site')):
        os.makedirs(root, exist_ok=True)
        _write(os.path.join(root, 'a.txt'), f'PUBLIC {tag} a\n')
        if not (tag == 'fe' and opt['fe_index_out']):
            _write(os.path.join(root, 'index.html'), f'<html>PUBLIC {tag}</html>')
        if opt[f'{tag}_d']:
            _write(os.path.join(root, 'd', 'b.txt'), f'PUBLIC {tag} b\n')
            _write(os.path.join(root, 'd', 'index.html'), f'<html>{tag} d</html>')
        if opt[f'{tag}_ln_out']:
            os.symlink(s_other, os.path.join(root, 'ln_out'))
        if opt[f'{tag}_dl_out']:
            os.symlink(os.path.join(base, 'other'), os.path.join(root, 'dl_out'))
        if opt[f'{tag}_d2_index_out']:
            os.makedirs(os.path.join(root, 'd2'), exist_ok=True)
            os.symlink(s_top, os.path.join(root, 'd2', 'index.html'))
    if opt['fe_index_out']:
        os.symlink(s_top, os.path.join(fe, 'index.html'))
    if opt['ln_in']:
        os.symlink(os.path.join(fe, 'a.txt'), os.path.join(fe, 'ln_in'))
    if opt['dl_in'] and opt['fe_d']:
        os.symlink(os.path.join(fe, 'd'), os.path.join(site, 'dl_in'))
    # nested layouts put one root inside the other: whatever ended up inside
    # a root is public after all
    roots = [os.path.realpath(fe), os.path.realpath(site)]
    for p in list(secrets):
        rp = os.path.realpath(p)
        if any(rp.startswith(r + os.sep) for r in roots):
            _write(p, 'PUBLIC after all\n')
            del secrets[p]
    return fe, site, secrets


def _aim(p, fe, site, secrets):
    '''["aim", i, j, suffix] -> a request path that addresses secret i from
    root j%2 through j//2 different spellings'''
    _, i, j, suffix = p
    keys = sorted(secrets)
    target = keys[i % len(keys)]
    root = (fe, site)[j % 2]
    rel = os.path.relpath(target, root)
    style = j // 2
    if style == 1:
        rel = 'd/../' + rel
    elif style == 2:
        rel = './' + rel.replace('../', '.././')
    elif style == 3:
        # address the directory holding the secret (index.html lookup)
        rel = os.path.dirname(rel) or '.'
    elif style == 4:
        # through a linked directory inside the root that leads outside
        other = os.path.join(os.path.dirname(os.path.dirname(target)), 'other')
        link = os.path.join(root, 'dl_out')
        if os.path.islink(link) and os.path.dirname(target) == os.path.realpath(
                link):
            rel = ['dl_out/', 'd/../dl_out/', './dl_out/./'][i % 3] + (
                os.path.basename(target))
        del other
    return '/' + rel + suffix


class _Request:
    def __init__(self, uri):
        self.uri = uri.encode()
        self.headers = {}
        self.args = {}
        self.code = None
        self.transport = types.SimpleNamespace()

    def setHeader(self, k, v):  # pylint: disable=invalid-name
        self.headers[k] = v

    def setResponseCode(self, c):  # pylint: disable=invalid-name
        self.code = c

    def redirect(self, url):
        self.headers[b'location'] = url


def _outside_target(path, fe, site):
    '''does the request, joined to either root, address an existing file
    outside both roots? (reference computation with os.path.realpath)'''
    rfe, rsite = os.path.realpath(fe), os.path.realpath(site)

    def inside(x):
        return any(x == r or x.startswith(r + os.sep) for r in (rfe, rsite))

    rel = path.lstrip('/')
    for root in (rfe, rsite):
        cand = os.path.realpath(os.path.join(root, rel))
        for c in (cand, os.path.realpath(os.path.join(cand, 'index.html'))):
            if os.path.isfile(c) and not inside(c):
                return True
    return False


def exec_static(case):
    import dawgie.context
    import dawgie.fe

    out = core.Outcome()
    base = world.fresh_dir('c19')
    old = (dawgie.context.fe_path, dawgie.context.site_path)
    try:
        fe, site, secrets = _build_site(base, case)
        dawgie.context.fe_path = fe
        dawgie.context.site_path = site
        dawgie.context.fsm = types.SimpleNamespace(
            is_pipeline_active=lambda: True)
        res = dawgie.fe.StaticContent()
        isdep = case['opt']['isdep']
        asked = []
        todo = list(case['paths'])
        while todo:
            p = todo.pop(0)
            if isinstance(p, list) and p[0] == 'swap':
                victim = os.path.join((fe, site)[p[2]], p[1])
                if (secrets and os.path.isfile(victim)
                        and not os.path.islink(victim)):
                    os.unlink(victim)
                    os.symlink(sorted(secrets)[0], victim)
                    out.label('public-file-replaced-by-link-to-outside')
                    if asked:
                        out.label('requests-repeated-after-the-site-changed')
                    todo = list(asked) + todo
                    asked = []
                continue
            path = _aim(p, fe, site, secrets) if isinstance(p, list) else p
            asked.append(path)
            if _outside_target(path, fe, site):
                out.nontrivial = True
                out.label('addresses-file-outside-roots')
            if '..' in path:
                out.label('has-dotdot')
            if any(s in path for s in ('ln_out', 'dl_out', 'd2')):
                out.label('through-symlink-name')
            replies = []
            for how in ('_static', 'render_GET'):
                try:
                    if how == '_static':
                        r = dawgie.fe._static(path, site, isdep, _Request(path))
                    else:
                        r = res.render_GET(_Request(path))
                except (OSError, ValueError, UnicodeError) as exc:
                    # a refusal by exception serves nothing
                    out.label('raised-' + type(exc).__name__)
                    continue
                replies.append((how, r))
            for how, r in replies:
                if not isinstance(r, (bytes, bytearray)):
                    continue
                if MARK.encode() in r:
                    which = re.findall(MARK.encode() + rb'\d+ [^\n<]*', r)[:1]
                    out.fail(
                        'static/served-file-outside-roots',
                        f'{how}({path!r}) with roots fe={os.path.relpath(fe, base)} '
                        f'site={os.path.relpath(site, base)} returned '
                        f'{which}',
                    )
                    break
                if r.startswith(b'PUBLIC') or b'<html>' in r:
                    out.label('served-public-file')
            if out.failures:
                break
    finally:
        dawgie.context.fe_path, dawgie.context.site_path = old
        world.rm(base)
    return out


# -------------------------------------------------------------- endpoints

METHODS = ['GET', 'POST', 'PUT', 'DELETE']
HOOKS = [
    'default', 'const_true', 'const_false', 'raise_RuntimeError',
    'raise_AttributeError', 'raise_ImportError', 'raise_KeyError',
    'raise_TypeError', 'raise_SystemExit', 'missing_module',
    'missing_attribute',
]
COMMAND = re.compile(r'/(run|reset|submit|snapshot)$')


def _install_hooks():
    m = types.ModuleType('vf_c19_hooks')

    def const_true(endpoint, cert):
        return True

    def const_false(endpoint, cert):
        return False

    m.const_true = const_true
    m.const_false = const_false
    for exc in (RuntimeError, AttributeError, ImportError, KeyError,
                TypeError, SystemExit):
        def hook(endpoint, cert, _e=exc):
            raise _e('hook failure')
        setattr(m, 'raise_' + exc.__name__, hook)
    sys.modules['vf_c19_hooks'] = m


def _hook_name(h):
    if h == 'default':
        return 'dawgie.security.is_sanctioned'
    if h == 'missing_module':
        return 'vf_c19_no_such_module.hook'
    if h == 'missing_attribute':
        return 'vf_c19_hooks.no_such_hook'
    return 'vf_c19_hooks.' + h


_ENDPOINTS = {}
_CERT_DIRS = {}
CLIENTS = ['none', 'stand-in', 'real-valid', 'real-expired',
           'real-expired+valid']


def _cert_dir(kind):
    '''a directory of dawgie.public.pem* files as security._tls_initialize
    reads them: self-signed guest certificates, valid (2000-2200) and / or
    past their validity (2000-2001); made once per process'''
    if kind in _CERT_DIRS:
        return _CERT_DIRS[kind]
    import datetime

    from cryptography import x509
    from cryptography.hazmat.primitives import hashes, serialization
    from cryptography.hazmat.primitives.asymmetric import ec
    from cryptography.x509.oid import NameOID

    if 'key' not in _CERT_DIRS:
        _CERT_DIRS['key'] = ec.generate_private_key(ec.SECP256R1())
    key = _CERT_DIRS['key']
    d = world.fresh_dir('c19certs')
    want = {'real-valid': [2200], 'real-expired': [2001, 2002],
            'real-expired+valid': [2001, 2200]}[kind]
    for n, until in enumerate(want):
        name = x509.Name([x509.NameAttribute(NameOID.COMMON_NAME,
                                             f'guest{n}')])
        cert = (x509.CertificateBuilder().subject_name(name)
                .issuer_name(name).public_key(key.public_key())
                .serial_number(1000 + n)
                .not_valid_before(datetime.datetime(2000, 1, 1))
                .not_valid_after(datetime.datetime(until, 1, 1))
                .sign(key, hashes.SHA256()))
        with open(os.path.join(d, f'dawgie.public.pem.{n}'), 'wb') as f:
            f.write(cert.public_bytes(serialization.Encoding.PEM))
    _CERT_DIRS[kind] = d
    return d


def _endpoints():
    '''every DynamicContent leaf of the real route tree: uri -> resource'''
    if _ENDPOINTS:
        return _ENDPOINTS
    import dawgie.fe
    import dawgie.fe.basis as basis

    def walk(node, prefix):
        for name, child in sorted(node.children.items()):
            uri = prefix + '/' + name.decode()
            if isinstance(child, basis.DynamicContent):
                _ENDPOINTS[uri] = child
            else:
                walk(child, uri)

    walk(dawgie.fe.root(), '')
    return _ENDPOINTS


def _endpoint_cases():
    def gen():
        eps = sorted(_endpoints())
        for uri, meth, cert, clients, hook in itertools.product(
            eps, METHODS, (0, 1), range(len(CLIENTS)), HOOKS
        ):
            yield {'uri': uri, 'method': meth, 'cert': cert,
                   'clients': clients, 'hook': hook}
    return gen


def exec_endpoint(case):
    import dawgie.context
    import dawgie.fe.basis as basis
    import dawgie.security as sec

    out = core.Outcome()
    eps = _endpoints()
    res = eps.get(case['uri'])
    if res is None:
        raise core.HarnessError(f'endpoint {case["uri"]} is not registered')
    _install_hooks()
    if res._DynamicContent__uri != case['uri']:
        out.fail('route/uri-mismatch',
                 f'mounted at {case["uri"]} but checks access for '
                 f'{res._DynamicContent__uri}')
    real_fnc = res._DynamicContent__fnc
    real_sanctioned = sec.sanctioned
    old_hook = dawgie.context.sanction_override
    old_certs = list(sec._certs)
    old_mine, old_sys = dict(sec._myself), dict(sec._system)
    order = []

    target = real_fnc.__call__ if isinstance(real_fnc, basis.DeferContainer) \
        else real_fnc

    @functools.wraps(target)
    def spy(*a, **k):
        order.append(('handler', case['uri']))
        return b'{"spy": true}'

    def sanctioned(endpoint, cert):
        r = real_sanctioned(endpoint, cert)
        order.append(('sanctioned', endpoint, cert is not None, r))
        return r

    cert = types.SimpleNamespace(get_serial_number=lambda: 7) \
        if case['cert'] else None
    req = _Request(case['uri'])
    if case['cert'] or case['clients']:
        req.transport.getPeerCertificate = lambda: cert
    req.args = {b'targets': [b'T'], b'tasks': [b'a.b'], b'changeset': [b'x'],
                b'bogus': [b'1']}
    try:
        res._DynamicContent__fnc = spy
        sec.sanctioned = sanctioned
        kind = CLIENTS[case['clients']]
        if kind.startswith('real'):
            # guest certificates loaded the way the pipeline loads them
            sec._tls_initialize(path=_cert_dir(kind))
            if not sec._certs:
                raise core.HarnessError('no certificate loaded')
            out.label('clients-' + kind)
        else:
            sec._certs[:] = [object()] if case['clients'] else []
        dawgie.context.sanction_override = _hook_name(case['hook'])
        try:
            reply = getattr(res, 'render_' + case['method'])(req)
        except SystemExit:
            reply = None
            out.label('hook-exception-escaped')
        ran = [o for o in order if o[0] == 'handler']
        asked = [o for o in order if o[0] == 'sanctioned']
        command = bool(COMMAND.search(case['uri']))
        hook = case['hook']
        if command:
            out.nontrivial = True
            out.label('command-endpoint')
        if ran:
            out.label('handler-ran')
            first = order.index(ran[0])
            ok = [o for o in order[:first] if o[0] == 'sanctioned'
                  and o[1] == case['uri'] and o[3] is True]
            if not ok:
                out.fail('access/handler-before-or-without-sanction',
                         f'{case}: order={order}')
            if len(ran) > 1:
                out.fail('access/handler-ran-twice', f'{case}: {order}')
        else:
            out.label('handler-not-run')
        if ran and hook.startswith('raise_'):
            out.fail('hook/error-not-denied', f'{case}: {order}')
        if ran and hook.startswith('missing_'):
            out.fail('hook/lookup-error-not-denied', f'{case}: {order}')
        if ran and hook == 'const_false':
            out.fail('hook/refusal-ignored', f'{case}: {order}')
        if (ran and hook == 'default' and case['clients'] and not case['cert']
                and command):
            out.fail('access/command-served-to-stranger', f'{case}: {order}')
        if not asked:
            out.fail('access/not-checked', f'{case}: sanctioned never called')
        if not ran and isinstance(reply, bytes) and b'"spy"' in reply:
            out.fail('access/harness', 'spy reply without spy call')
    finally:
        res._DynamicContent__fnc = real_fnc
        sec.sanctioned = real_sanctioned
        sec._certs[:] = old_certs
        sec._myself.clear()
        sec._myself.update(old_mine)
        sec._system.clear()
        sec._system.update(old_sys)
        dawgie.context.sanction_override = old_hook
    return out


def parts(tier):
    q = tier == 'quick'
    return [
        core.Part('endpoints', exec_endpoint, enum=_endpoint_cases(),
                  exhaustive=True,
                  enum_note='every registered DynamicContent endpoint x '
                  '{GET,POST,PUT,DELETE} x {no cert, cert} x {no clients, '
                  'stand-in client list, real guest certificates loaded by '
                  '_tls_initialize: valid / all expired / expired + valid} '
                  'x 11 access hooks'),
        core.Part('static', exec_static, strategy=_static_case(),
                  cases=1600 if q else 60000, batch=200),
    ]
