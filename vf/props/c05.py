'''C05 - a failed run is contained to its own target and its dependents.'''

from .. import core, sim

ID = 'C05'
LEVEL = 'fault_enumeration'
RULE = (
    'Part history: generated engine x targets x history (as C01) in which '
    'non-success replies (failure / invalid) arrive for arbitrary in-flight '
    'units in arbitrary scheduler states. Part enumerate: for a generated '
    'history prefix, EVERY unit in flight at its end x EVERY non-success '
    'outcome is injected (the prefix is re-executed for each). Oracle: '
    'before/after snapshot of every node. Non-trivial: the failing unit has '
    'a transitive dependent with the target pending and some unrelated '
    'algorithm has pending or executing work. Distinct = SHA-1 of case JSON.'
)
ASSUMPTIONS = [
    'literal reading for all-target runs: the marker __all__ is what is '
    'withdrawn from dependents',
    'nothing is asserted about a dependent that is *executing* the target '
    '(the statement speaks of pending work)',
    'nothing is asserted about the failing algorithm\'s own pending set',
    'life-cycle active; stub database; promotion disabled',
]


def check_failure(s, ev, out):
    u = ev['unit']
    x, t = u.jobid, u.target
    if u in s.died:
        out.fail('cluster/worker-died-without-reporting',
                 f'{u}: the algorithm ended with SystemExit and the worker '
                 'sent no failure reply: outcome neither recorded nor '
                 'contained')
        return
    if sim.reply_dropped_by_known_finding(s, ev):
        out.fail(sim.KNOWN_DROP,
                 f'{u} {ev["outcome"]}: reply dropped, errors={ev["errors"]}')
        return
    before, after = ev['before'], ev['after']
    desc = s.ref.descendants[x]
    dep_pending = [d for d in desc if t in before[d][0]]
    unrelated = [
        n for n in before
        if n != x and n not in desc and (before[n][0] or before[n][1])
    ]
    if dep_pending and unrelated:
        out.nontrivial = True
        out.label('dependent-pending+unrelated-busy')
    if dep_pending:
        out.label('dependent-pending')
    for d in sorted(desc):
        if t in after[d][0]:
            out.fail(
                'containment/target-still-pending-in-dependent',
                f'{u} {ev["outcome"]}: {d} still has {t} pending',
            )
    for n in sorted(before):
        bt, bd, _ = before[n]
        at, ad, _ = after[n]
        if n == x:
            # own target leaves doing (completion); own todo is not asserted
            if (bd - {t}) != (ad - {t}) and t != '__all__':
                out.fail('frame/own-other-targets-executing-changed',
                         f'{n}: doing {sorted(bd)} -> {sorted(ad)}')
            if (bt - {t}) != (at - {t}):
                out.fail('frame/own-other-targets-pending-changed',
                         f'{n}: todo {sorted(bt)} -> {sorted(at)}')
            continue
        if (bt - {t}) != (at - {t}) or (bd - {t}) != (ad - {t}):
            out.fail(
                'frame/other-target-changed',
                f'{u} {ev["outcome"]}: {n} todo {sorted(bt)}->{sorted(at)} '
                f'doing {sorted(bd)}->{sorted(ad)}',
            )
        if n not in desc and (bt != at or bd != ad):
            out.fail(
                'frame/unrelated-algorithm-changed',
                f'{u} {ev["outcome"]}: {n} (not a dependent) todo '
                f'{sorted(bt)}->{sorted(at)} doing {sorted(bd)}->{sorted(ad)}',
            )
        if not at <= bt:
            out.fail('trigger/pending-grew', f'{n}: {sorted(bt)} -> {sorted(at)}')
    if any(c[0] == 'update' for c in ev['calls']):
        out.fail('trigger/update-called', f'{ev["calls"]}')
    app = [c for c in ev['calls'] if c[0] == 'append']
    if app != [('append', x, t, u.runid, ev['outcome'])]:
        out.fail('history/outcome-not-recorded', f'{u} {ev["outcome"]}: {app}')


def check_event(s, ev, out):
    if ev['op'][0] == 'rep' and 'unit' in ev and ev['outcome'] != 'success':
        out.label(ev['outcome'])
        check_failure(s, ev, out)
    for e in ev['errors']:
        if e[0] == 'exception':
            out.fail('farm/swallowed-exception', f'{e} op={ev["op"]}')


def execute(case):
    return sim.run_history(case, check_event, pid=ID)


def execute_enum(case):
    '''inject every non-success outcome into every unit in flight at the end'''
    out = core.Outcome()
    count = [0]

    def probe(s, _out):
        count[0] = len(s.handed())

    first = sim.run_history(case, lambda s, ev, o: None, probe)
    if first.failures:
        return first
    for k in range(count[0]):
        for oc in (1, 2):
            c = dict(case)
            c['ops'] = list(case['ops']) + [['rep', k, oc, 0, 0]]
            last = len(c['ops'])

            def only_last(s, ev, o, last=last):
                if ev['step'] == last:
                    check_event(s, ev, o)

            r = sim.run_history(c, only_last)
            out.failures.extend(r.failures)
            out.nontrivial |= r.nontrivial
            for lab in r.labels:
                out.label(lab)
            if out.failures:
                return out
    out.label(f'inflight-at-end-{min(count[0], 3)}')
    return out


def _cluster_cases():
    '''histories whose replies come from real workers
    (worker.cluster.execute -> worker.Context.run -> Task/Analysis/Regress.do
    on a real shelve store)'''
    from hypothesis import strategies as st

    from .. import engines

    @st.composite
    def build(draw):
        spec = draw(engines.specs(max_algs=5, max_pkgs=2, min_algs=2,
                                  feedback=False))
        targets = draw(st.lists(st.sampled_from(sim.TARGET_POOL[:3]),
                                unique=True, min_size=1, max_size=3))
        n = len(spec['algs'])
        op = st.one_of(
            st.tuples(st.just('work'),
                      st.sampled_from([0, 0, 0, 1, 2, 3])).map(list),
            st.tuples(st.just('work'),
                      st.sampled_from([0, 0, 1, 2, 2, 3])).map(list),
            st.tuples(st.just('req'),
                      st.lists(st.integers(0, n - 1), min_size=1, max_size=2),
                      st.lists(st.integers(-1, 2), min_size=1,
                               max_size=2)).map(list),
            st.tuples(st.just('requp'), st.integers(0, 3)).map(list),
            st.just(['tick']),
        )
        return {'spec': spec, 'targets': targets, 'bumped': [],
                'workers': 0, 'real_store': True,
                'ops': [['reqall']] + draw(st.lists(op, min_size=4,
                                                    max_size=30))}

    return build()


def parts(tier):
    q = tier == 'quick'
    w = {}
    return [
        core.Part(
            'history', execute,
            strategy=sim.histories(weights=w, spec_kw={'min_algs': 2}),
            cases=1600 if q else 40000, batch=200,
        ),
        core.Part(
            'enumerate', execute_enum,
            strategy=sim.histories(weights=dict(w), max_ops=25,
                                   spec_kw={'min_algs': 2}),
            cases=320 if q else 8000, batch=80,
        ),
        core.Part('cluster', execute, strategy=_cluster_cases(),
                  cases=160 if q else 4000, batch=40),
    ]
