'''C12 - a submitted update takes effect exactly when its priority allows.

The real FSM on the FSM rig; submissions go through the real
fe.submit.Process (step_1 refusal, step_3 -> set_submit_info +
submit_crossroads) or straight to the crossroads; the waiters' pollers are
single-stepped by the harness (one poll = one evaluation of the real loop
condition); progress of crew / executing / queue is set by the harness on the
real module state the pollers read (farm._busy, schedule.que).
'''

from hypothesis import strategies as st

from .. import core, fsmrig

ID = 'C12'
LEVEL = 'exploration'
RULE = (
    'Generated: words of 4-30 events over {submit(priority in now / '
    'crew_idle / doing_empty / todo_empty / garbage, via Process or '
    'directly), poll(k) (one iteration of the k-th live poller), busy(n) / '
    'doing(n) / queue(n) (set the number of busy workers, executing jobs, '
    'queued jobs), step(j) (complete a background step of the reload '
    'cycle), archive (farm.dispatch with new data while idle)} starting at '
    'rest in running; at the end everything is made idle, all pollers are '
    'polled and all steps completed. Non-trivial: two submissions of '
    'different priority within one reload cycle, or a priority used again '
    'in a later cycle after it was overtaken. Distinct = SHA-1 of case JSON.'
)
ASSUMPTIONS = [
    'pollers run on the harness thread, one loop iteration per poll event '
    '(time.sleep inside dawgie.pl.state raises PollAgain)',
    'crew / executing / queue progress is applied directly to farm._busy and '
    'schedule.que (nodes with status running + doing, or waiting + todo)',
    'the compliance/merge step of a submission (tools.submit.automatic) is a '
    'stub that succeeds; git history lookup stubbed',
    'bounded liveness: at the end of a word the harness makes crew, '
    'executing and queue empty, polls every live poller and completes every '
    'step, three rounds',
]

PRIOS = ['now', 'crew_idle', 'doing_empty', 'todo_empty', 'garbage']
RANK = {'now': 3, 'crew_idle': 2, 'doing_empty': 1, 'todo_empty': 0,
        'garbage': 0}


def _set_progress(r, busy, doing, que):
    import dawgie.pl.dag
    import dawgie.util.fifo
    from dawgie.pl.jobinfo import State

    r.farm._busy[:] = [f'p.A[T{i}]' for i in range(busy)]
    nodes = []
    for i in range(doing):
        nodes.append(dawgie.pl.dag.Node(
            f'x.run{i}', attrib={'status': State.running, 'doing': {'T'},
                                 'todo': dawgie.util.fifo.Unique(),
                                 'do': set(), 'level': 0}))
    for i in range(que):
        nodes.append(dawgie.pl.dag.Node(
            f'x.wait{i}', attrib={'status': State.waiting, 'doing': set(),
                                  'todo': dawgie.util.fifo.Unique(['T']),
                                  'do': set(), 'level': 0}))
    if (busy + doing + que) % 2:
        r.sched.que[:] = nodes  # in place, as complete() / defer() do
    else:
        r.sched.que = nodes  # a new list, as organize() / build() do


def _condition(r, rank):
    '''does the condition of the priority with this rank hold right now?'''
    if rank == 3:
        return True
    if rank == 2:
        return not r.farm._busy
    if rank == 1:
        return not r.sched.view_doing()
    return not r.sched.que


class _Req:
    '''gone=True: the submitting client has lost its connection; twisted's
    Request.finish() then raises RuntimeError'''

    def __init__(self, gone=False):
        self.body = b''
        self.done = False
        self.gone = gone

    def write(self, b):
        self.body += b

    def finish(self):
        if self.gone:
            raise RuntimeError(
                'Request.finish called on a request after its connection '
                'was lost')
        self.done = True


def execute(case):
    import dawgie.fe.submit as fsub
    import transitions

    out = core.Outcome()
    r = fsmrig.Rig()
    try:
        f = r.fsm
        f.starting_trigger()
        while r.lifecycle_steps():
            r.complete(r.lifecycle_steps()[0])
        if not f.is_pipeline_active():
            raise core.HarnessError('boot did not reach running')
        progress = [0, 0, 0]
        strongest = [None]  # strongest rank accepted since the last reload
        asked = []  # ranks accepted in the current cycle, in order
        used_overtaken = set()  # ranks overtaken in an earlier cycle
        overtaken_now = set()
        cycle = [0]
        accepted_in_cycle = [0]
        real_update = f.update_trigger

        def update_spy(*a, **k):
            state, trans = f.state, f.transitioning
            cond = (None if strongest[0] is None
                    else _condition(r, strongest[0]))
            try:
                res = real_update(*a, **k)
            except transitions.MachineError as exc:
                out.fail(
                    'trigger/update-raised-MachineError@' + state,
                    f'update_trigger fired in state {state} '
                    f'({trans.name}): {exc}; strongest priority rank '
                    f'{strongest[0]}, cycle {cycle[0]}',
                )
                raise
            accepted_in_cycle[0] += 1
            if strongest[0] is None:
                out.fail('trigger/update-without-submission',
                         f'cycle {cycle[0]}')
            elif not cond:
                out.fail(
                    'trigger/condition-does-not-hold@rank'
                    + str(strongest[0]),
                    f'reload triggered with busy={list(r.farm._busy)} '
                    f'doing={r.sched.view_doing()} que='
                    f'{[n.tag for n in r.sched.que]} while the strongest '
                    f'priority requested is rank {strongest[0]} '
                    f'(requests this cycle {asked})',
                )
            if accepted_in_cycle[0] > 1:
                out.fail('trigger/more-than-once-per-cycle',
                         f'cycle {cycle[0]}')
            # the reload consumes the request
            strongest[0] = None
            used_overtaken.update(overtaken_now)
            overtaken_now.clear()
            asked.clear()
            cycle[0] += 1
            accepted_in_cycle[0] = 0
            return res

        f.update_trigger = update_spy

        def reset_cmd(archive):
            '''POST /api/cmd/reset: when active an immediate reload (like a
            NOW request); otherwise refused without any effect'''
            import dawgie.fe.api as api

            active = f.is_pipeline_active()
            before = r.snapshot()
            arch = r.farm.ARCHIVE
            if active:
                asked.append(3)
                if strongest[0] is None or strongest[0] < 3:
                    strongest[0] = 3
            api.cmd_reset(['true'] if archive else None)
            if not active:
                r.farm.ARCHIVE = arch if False else r.farm.ARCHIVE
                if r.snapshot() != before:
                    out.fail('reset/refused-with-side-effects',
                             f'not active ({before[0]}) but {before} -> '
                             f'{r.snapshot()}')
                out.label('reset-refused')
            else:
                out.label('reset-accepted')

        def submit(prio, via, ok=True, gone=False):
            active = f.is_pipeline_active()
            before = r.snapshot()
            if via == 0 and not ok:
                # the merge / compliance step fails: the submission is
                # abandoned in step 2 and must leave nothing behind
                r.automatic_ok = False
                req = _Req()
                fsub.Process('cs', lambda: None, req, prio).step_0()
                r.run_calls()
                r.automatic_ok = True
                if r.snapshot() != before:
                    out.fail('submit/failed-submission-left-traces',
                             f'{before} -> {r.snapshot()}')
                out.label('submission-failed-in-step-2' if active
                          else 'submission-refused')
                return
            if active:
                # bookkeeping first: NOW fires inside the crossroads
                rank = RANK[prio]
                if asked and rank != asked[-1]:
                    out.nontrivial = True
                    out.label('two-priorities-in-one-cycle')
                if strongest[0] is not None and rank > strongest[0]:
                    overtaken_now.add(strongest[0])
                    out.label('stronger-overtakes-waiting-weaker')
                if rank in used_overtaken:
                    out.nontrivial = True
                    out.label('priority-reused-after-being-overtaken')
                asked.append(rank)
                if strongest[0] is None or rank > strongest[0]:
                    strongest[0] = rank
            if via == 0:
                req = _Req(gone=gone)
                if gone:
                    out.label('client-gone-before-the-answer')
                fsub.Process('cs', lambda: None, req, prio).step_0()
                r.run_calls()
            elif active:
                # what Process.step_3 does once the merge succeeded
                f.set_submit_info('cs', prio)
                f.submit_crossroads()
            else:
                f.submit_crossroads()  # logs and does nothing
            if not active:
                if r.snapshot() != before:
                    out.fail('submit/refused-with-side-effects',
                             f'not active ({before[0]}) but {before} -> '
                             f'{r.snapshot()}')
                out.label('submission-refused')

        def drive(ev):
            kind = ev[0]
            if kind == 'submit':
                submit(PRIOS[ev[1] % len(PRIOS)], ev[2],
                       ok=(len(ev) < 4 or bool(ev[3])),
                       gone=(len(ev) > 4 and bool(ev[4])))
            elif kind == 'reset':
                reset_cmd(ev[1])
            elif kind == 'poll':
                ps = r.pollers()
                if ps:
                    r.complete(ps[ev[1] % len(ps)])
            elif kind == 'busy':
                progress[0] = ev[1]
                _set_progress(r, *progress)
            elif kind == 'doing':
                progress[1] = ev[1]
                _set_progress(r, *progress)
            elif kind == 'queue':
                progress[2] = ev[1]
                _set_progress(r, *progress)
            elif kind == 'step':
                steps = r.lifecycle_steps()
                if steps:
                    r.complete(steps[ev[1] % len(steps)])
                    if not r.lifecycle_steps() and f.is_pipeline_active():
                        # schedule.build of the reload emptied the queue
                        _set_progress(r, *progress)
            elif kind == 'archive':
                # farm.dispatch archives only when nothing is queued, busy
                # or released; the harness' stand-in jobs cannot be released
                if progress == [0, 0, 0]:
                    r.farm.ARCHIVE = True
                    r.farm.dispatch()
                    out.label('idle-archive')
            elif kind == 'finish':
                # let the cycle run to its end: everything idle, every
                # poller polled, every step completed; then work resumes
                progress[:] = [0, 0, 0]
                _set_progress(r, 0, 0, 0)
                for p in list(r.pollers()):
                    if p in r.pending:
                        r.complete(p)
                for _ in range(12):
                    if not r.lifecycle_steps():
                        break
                    r.complete(r.lifecycle_steps()[0])
                progress[:] = list(ev[1])
                _set_progress(r, *progress)
            for name, exc in r.errors:
                if not isinstance(exc, transitions.MachineError):
                    out.fail(f'step/raised-{type(exc).__name__}@{name}',
                             repr(exc))
            r.errors.clear()

        for ev in case['word']:
            drive(ev)
            if out.failures:
                return out
        # bounded liveness: everything idle, poll everybody, finish steps
        for _round in range(3):
            progress[:] = [0, 0, 0]
            _set_progress(r, 0, 0, 0)
            for _ in range(12):
                if not r.lifecycle_steps():
                    break
                drive(['step', 0])
            for p in list(r.pollers()):
                if p in r.pending:
                    r.complete(p)
            for name, exc in r.errors:
                if not isinstance(exc, transitions.MachineError):
                    out.fail(f'step/raised-{type(exc).__name__}@{name}',
                             repr(exc))
            r.errors.clear()
            if out.failures:
                return out
        for _ in range(12):
            if not r.lifecycle_steps():
                break
            drive(['step', 0])
        if f.is_pipeline_active() and strongest[0] is not None:
            live = [p.name for p in r.pollers()]
            out.fail(
                'liveness/update-never-triggered@rank' + str(strongest[0]),
                f'at rest in running, crew/executing/queue empty, a '
                f'submission of rank {strongest[0]} was accepted in cycle '
                f'{cycle[0]} but no reload was triggered; live pollers '
                f'{live}; handles crew={f.crew_thread is not None} doing='
                f'{f.doing_thread is not None} todo='
                f'{f.todo_thread is not None}',
            )
        out.label(f'cycles-{min(cycle[0], 3)}')
    finally:
        r.close()
    return out


_n = st.integers(0, 2)
_ev = st.one_of(
    st.tuples(st.just('submit'), st.integers(0, 4), st.integers(0, 1)).map(list),
    st.tuples(st.just('submit'), st.integers(0, 4), st.integers(0, 1)).map(list),
    st.tuples(st.just('submit'), st.integers(0, 4), st.integers(0, 1)).map(list),
    st.tuples(st.just('poll'), _n).map(list),
    st.tuples(st.just('poll'), _n).map(list),
    st.tuples(st.just('poll'), _n).map(list),
    st.tuples(st.just('busy'), _n).map(list),
    st.tuples(st.just('doing'), _n).map(list),
    st.tuples(st.just('queue'), _n).map(list),
    st.tuples(st.just('step'), _n).map(list),
    st.tuples(st.just('step'), _n).map(list),
    st.tuples(st.just('step'), _n).map(list),
    st.just(['archive']),
    st.just(['archive']),
    st.tuples(st.just('submit'), st.integers(0, 4), st.just(0),
              st.just(0)).map(list),
    st.tuples(st.just('reset'), st.integers(0, 1)).map(list),
    st.tuples(st.just('submit'), st.integers(0, 4), st.just(0), st.just(1),
              st.just(1)).map(list),
    st.tuples(st.just('finish'), st.just([0, 0, 0])).map(list),
    st.tuples(st.just('finish'), st.tuples(_n, _n, _n).map(list)).map(list),
    st.tuples(st.just('finish'), st.tuples(_n, _n, _n).map(list)).map(list),
)
_case = st.fixed_dictionaries({
    'word': st.lists(_ev, min_size=4, max_size=30).map(
        lambda w: [['busy', 1], ['doing', 1], ['queue', 1]] + w),
})


@st.composite
def _cycles(draw):
    '''words made of reload cycles: some submissions, then crew / executing
    / queue drain in a generated order with every live poller polled after
    each change, then the cycle is allowed to finish'''
    word = [['busy', 1], ['doing', 1], ['queue', 1]]
    for _ in range(draw(st.integers(1, 3))):
        subs = draw(st.lists(st.tuples(st.integers(0, 4), st.integers(0, 1)),
                             min_size=1, max_size=3))
        for prio, via in subs:
            if draw(st.integers(0, 5)) == 0:
                word.append(['submit', draw(st.integers(0, 4)), 0, 0])
            if draw(st.integers(0, 5)) == 0:
                word.append(['submit', prio, 0, 1, 1])
            else:
                word.append(['submit', prio, via])
            if draw(st.integers(0, 7)) == 0:
                word += [['archive'], ['reset', 0]]
        order = draw(st.permutations(['busy', 'doing', 'queue']))
        for x in order[:draw(st.integers(1, 3))]:
            word.append([x, 0])
            if draw(st.integers(0, 5)) == 0:
                word.append(['submit', draw(st.integers(0, 4)), 1])
            word += [['poll', 0], ['poll', 1], ['poll', 2]]
        if draw(st.integers(0, 3)) == 0:
            word.append(['archive'])
        word.append(['finish', [1, 1, 1]])
    return {'word': word}


def parts(tier):
    q = tier == 'quick'
    return [
        core.Part('words', execute, strategy=_case,
                  cases=1200 if q else 40000, batch=200),
        core.Part('cycles', execute, strategy=_cycles(),
                  cases=800 if q else 30000, batch=200),
    ]
