'''C16 - the compliance gate accepts exactly the engines that follow the
architecture.

Generated engine packages are written to disk (both factory styles, every mix
of factory kinds per package) and put before the real
dawgie.tools.compliant (_scan + _verify, sampled: the command line).
Part accept: packages that follow every rule must pass the gate and then go
through scan -> task graph -> schedule.build -> periodics -> dispatch without
an exception.  Part reject: one violation from a catalogue tied to the rule
docstrings is injected at one applicable position; the gate must say no.
Part rejectall: every applicable violation at every position of a generated
package.
'''

import os
import subprocess
import sys
import warnings

from hypothesis import strategies as st

from .. import core, engines, sim, world

ID = 'C16'
LEVEL = 'exploration'
RULE = (
    'Generated: engine spec (1-3 packages, 1-6 algorithms of kinds drawn from '
    'one of several mixes incl. regress-only and analysis-only, 1-3 state '
    'vectors x 1-3 values, references at algorithm / state-vector / value '
    'level, feedback, timer events, legacy or registry factory style). Part '
    'accept: the unmodified package. Part reject: the package with one '
    'violation (kind x position) out of: dotted algorithm / state-vector / '
    'value name, empty state vector, algorithm without state vectors, '
    'missing name() / state_vectors(), wrong base class of value / state '
    'vector / algorithm / bot, unpicklable value, factory arity / default / '
    'annotation, malformed moment (two selectors, none, no time, ill-typed), '
    'reference with ill-typed factory / impl / item / feat or naming a '
    'missing algorithm / state vector / value - placed before, after or '
    'instead of an existing reference. Non-trivial: a package offers a '
    'strict subset of the factory kinds (accept), or the violation sits in a '
    'non-first algorithm or next to a valid reference (reject). Distinct = '
    'SHA-1 of case JSON.'
    ' Packages may say DAWGIE_IGNORE = False or bring their own factory. Par'
    't cli: the spawned command line judges a tree with / without an inject'
    'ed violation while the other variant of the same package is importable'
    ' (PYTHONPATH). '
    ' For accepted packages the graph the scheduler built is compared with '
    "the declarations (C09's oracle). "
)
ASSUMPTIONS = [
    'a package is "accepted" when _verify(_scan()) returns True (the command '
    'line exits 0) and "rejected" when it returns False or raises (non-zero '
    'exit)',
    'base-class and factory-signature violations only in the legacy factory '
    'style (the registry style builds factories itself and only registers '
    'classes of the right base)',
    'acyclic inputs; names without "." unless the violation is the dot',
    'pipeline walk-through with a stub database, dot rendering stubbed, '
    'reactor.callLater on a harness clock',
]

KIND_MIXES = [
    ('task', 'task', 'task', 'analysis', 'analysis', 'regress'),
    ('regress',),
    ('analysis',),
    ('task',),
    ('task', 'regress'),
    ('analysis', 'regress'),
    ('task', 'task', 'analysis'),
]


@st.composite
def _spec(draw):
    kinds = draw(st.sampled_from(KIND_MIXES))
    return draw(engines.specs(max_algs=6, max_pkgs=3, kinds=kinds,
                              events=True, flags=True, own=True))


def _gate(spec, viol=None):
    '''-> (accepted, detail); runs the real _scan/_verify on a package on
    disk'''
    import dawgie.tools.compliant as comp

    with engines.loaded(spec, scan=False, viol=viol) as eng:
        try:
            with warnings.catch_warnings():
                warnings.simplefilter('ignore')
                tasks = comp._scan()
                ok = comp._verify(tasks, True, False)
            detail = f'tasks={tasks}'
            if not ok:
                rules = {}
                for t in tasks:
                    for r in comp._get_rules():
                        try:
                            rules[f'{t.split(".")[-1]}:{r}'] = getattr(
                                comp, r)(t)
                        except Exception as exc:  # pylint: disable=broad-except
                            rules[f'{t.split(".")[-1]}:{r}'] = (
                                f'{type(exc).__name__}: {exc}')
                detail += ' failing=' + str(
                    {k: v for k, v in rules.items() if v is not True})
        except Exception as exc:  # pylint: disable=broad-except
            ok = False
            detail = f'raised {type(exc).__name__}: {exc}'
        finally:
            for k in [k for k in sys.modules if k.startswith(eng.base + '.')]:
                del sys.modules[k]
    return ok, detail


def _kinds_of_packages(spec):
    out = []
    for pi, _pk in enumerate(spec['pkgs']):
        ks = {a['kind'] for a in spec['algs'] if a['pkg'] == pi}
        if any(a['events'] for a in spec['algs'] if a['pkg'] == pi):
            ks.add('events')
        if ks:
            out.append(frozenset(ks))
    return out


_CLI = [0]


def exec_accept(case):
    import dawgie
    import dawgie.pl.schedule as sched
    import twisted.internet.reactor as reactor
    from twisted.internet import task

    out = core.Outcome()
    spec = case['spec']
    ok, detail = _gate(spec)
    for ks in _kinds_of_packages(spec):
        out.label('pkg-offers-' + '+'.join(sorted(ks)))
        if len(ks) < 4:
            out.nontrivial = True
    if not ok:
        site = '+'.join(sorted({k for ks in _kinds_of_packages(spec)
                                for k in ks}))
        first = detail.split('failing=')[-1][:300]
        out.fail(
            'accept/compliant-package-rejected'
            + ('@regress-without-analysis' if 'UnboundLocalError' in detail
               or "'a'" in detail else ''),
            f'kinds={site} style={spec["style"]}: {first}',
        )
        return out
    # every accepted package can be turned into a task graph and scheduled
    clock = task.Clock()
    real = reactor.callLater
    reactor.callLater = clock.callLater
    s = None
    try:
        with warnings.catch_warnings():
            warnings.simplefilter('ignore')
            s = sim.Sim(spec, ['T1', 'T2'], (0, 1, 2), auto_workers=2)
            sched.periodics(s.eng.factories[dawgie.Factories.events])
            s.do(['reqall'])
            s.do(['tick'])
            s.drain(bound=60)
        if s.missing:
            out.fail('pipeline/algorithm-missing-from-task-tree',
                     f'{s.missing}')
        else:
            # "can be turned into a task graph": the graph the scheduler got
            # is the declared one (the oracle of C09)
            from .c09 import compare

            sub = core.Outcome()
            compare(sub, spec, s.ref, sched.ae)
            if sub.failures:
                f = sub.failures[0]
                out.fail('pipeline/task-graph-differs-from-declarations',
                         f'{f.bucket}: {f.detail}')
        for e in s.errors:
            if e[0] == 'exception':
                out.fail('pipeline/swallowed-exception', str(e))
    finally:
        reactor.callLater = real
        if s is not None:
            s.close()
    # the command line itself, sampled
    if case.get('cli'):
        with engines.loaded(spec, scan=False) as eng:
            env = dict(os.environ)
            r = subprocess.run(
                [sys.executable, '-m', 'dawgie.tools.compliant',
                 f'--ae-dir={os.path.join(eng.root, eng.base)}',
                 f'--ae-pkg={eng.base}', '-s'],
                env=env, capture_output=True, text=True, timeout=120,
                check=False)
            out.label('cli-run')
            if r.returncode != 0:
                out.fail('accept/cli-exit-nonzero',
                         f'rc={r.returncode} {r.stdout[-300:]} '
                         f'{r.stderr[-300:]}')
    return out


def _check_reject(spec, viol, out):
    ok, detail = _gate(spec, viol)
    out.label('viol-' + viol['kind'])
    pi = viol.get('pkg', spec['algs'][viol.get('alg', 0)]['pkg'])
    if (spec.get('ignore_flag') or [None] * (pi + 1))[pi]:
        out.label('violation-in-package-that-says-ignore-false')
    if spec.get('own') and spec['own'][pi]:
        out.label('violation-in-package-with-own-factory')
    if viol.get('alg', 0) > 0 or viol.get('pos') in ('after', 'before'):
        out.nontrivial = True
    if viol.get('pos') == 'after':
        out.label('bad-ref-after-good-ref')
    if ok:
        out.fail(
            f'reject/violation-accepted@{viol["kind"]}',
            f'{viol} in a {spec["style"]} package of '
            f'{len(spec["algs"])} algorithms was accepted ({detail})',
        )
    return ok


def exec_reject(case):
    out = core.Outcome()
    spec = case['spec']
    vs = engines.violations(spec)
    if not vs:
        return out
    for n in case['picks']:
        v = vs[n % len(vs)]
        if v['kind'].startswith('moment-') and spec['style'] == 'registry':
            # the events factory must exist for the moment to be offered
            pi = spec['algs'][v['alg']]['pkg']
            if 'events' not in spec['placeholders'][pi]:
                spec = dict(spec, placeholders=[
                    sorted(set(p) | {'events'}) if i == pi else p
                    for i, p in enumerate(spec['placeholders'])])
        _check_reject(spec, v, out)
        if out.failures:
            break
    return out


def exec_rejectall(case):
    '''every applicable violation at every position of one package'''
    out = core.Outcome()
    spec = case['spec']
    ok, _d = _gate(spec)
    if not ok:
        return out  # accept part reports it
    vs = engines.violations(spec)
    for v in vs:
        sp = spec
        if v['kind'].startswith('moment-') and spec['style'] == 'registry':
            pi = spec['algs'][v['alg']]['pkg']
            sp = dict(spec, placeholders=[
                sorted(set(p) | {'events'}) if i == pi else p
                for i, p in enumerate(spec['placeholders'])])
        _check_reject(sp, v, out)
        if out.failures:
            break
    out.label(f'violations>={len(vs) // 50 * 50}')
    return out


def _cli(root, base, path_first):
    env = dict(os.environ)
    env['PYTHONPATH'] = os.pathsep.join(
        [env.get('PYTHONPATH', ''), path_first]).strip(os.pathsep)
    r = subprocess.run(
        [sys.executable, '-m', 'dawgie.tools.compliant',
         f'--ae-dir={os.path.join(root, base)}', f'--ae-pkg={base}', '-s'],
        env=env, capture_output=True, text=True, timeout=300, check=False)
    return r.returncode, (r.stdout[-300:] + ' ' + r.stderr[-300:])


def exec_cli(case):
    '''the command the submit gate spawns (python -m dawgie.tools.compliant)
    judges the tree it is pointed at - also when another copy of the same
    package (the operational one) is importable in the spawning process'''
    out = core.Outcome()
    spec = case['spec']
    vs = engines.violations(spec)
    ok, _d = _gate(spec)
    if not ok or not vs:
        return out  # the accept part reports a rejected compliant package
    v = vs[case['pick'] % len(vs)]
    if v['kind'].startswith('moment-') and spec['style'] == 'registry':
        return out
    rejected_in_process = not _gate(spec, v)[0]
    if not rejected_in_process:
        return out  # the reject part reports it
    with engines.loaded(spec, scan=False) as eng:
        other = world.fresh_dir('sub')
        try:
            engines.write(spec, other, eng.base, v)
            for pi, pk in enumerate(spec['pkgs']):
                if not any(a['pkg'] == pi for a in spec['algs']):
                    world.rm(os.path.join(other, eng.base, pk))
            # submission with a violation, compliant operational copy around
            rc, txt = _cli(other, eng.base, eng.root)
            out.label('cli-bad-submission-good-copy-importable')
            out.nontrivial = True
            if rc == 0:
                out.fail('reject/cli-accepts-violation@other-copy-importable',
                         f'{v}: exit 0 although the tree given with --ae-dir '
                         f'breaks the rule; {txt}')
            # compliant submission, a non-compliant copy around
            rc, txt = _cli(eng.root, eng.base, other)
            out.label('cli-good-submission-bad-copy-importable')
            if rc != 0:
                out.fail('accept/cli-rejects-compliant@other-copy-importable',
                         f'{v} is in the other copy only: exit {rc}; {txt}')
        finally:
            world.rm(other)
    return out


_accept = st.fixed_dictionaries({'spec': _spec(),
                                 'cli': st.sampled_from([0] * 39 + [1])})
_reject = st.fixed_dictionaries({
    'spec': _spec(),
    'picks': st.lists(st.integers(0, 5000), min_size=3, max_size=3),
})
_rejectall = st.fixed_dictionaries({
    'spec': engines.specs(max_algs=3, max_pkgs=2, events=True),
})


def parts(tier):
    q = tier == 'quick'
    return [
        core.Part('accept', exec_accept, strategy=_accept,
                  cases=480 if q else 12000, batch=60),
        core.Part('reject', exec_reject, strategy=_reject,
                  cases=480 if q else 12000, batch=60),
        core.Part('rejectall', exec_rejectall, strategy=_rejectall,
                  cases=16 if q else 600, batch=8),
        core.Part('cli', exec_cli,
                  strategy=st.fixed_dictionaries({
                      'spec': engines.specs(max_algs=3, max_pkgs=2,
                                            events=True),
                      'pick': st.integers(0, 5000)}),
                  cases=32 if q else 800, batch=8),
    ]
