'''C15 - version order is total; a version change reschedules exactly its owner.'''

import itertools
import warnings

from hypothesis import strategies as st

from .. import core, engines, rig, world

ID = 'C15'
LEVEL = 'exploration'
RULE = (
    'Part order (exhaustive): every ordered pair of version triples over '
    '{0,1,2,9,10}^3 (15 625 pairs, one case per left operand) - all six '
    'operators, newer() and asstring() against tuple comparison; part '
    'order-random: pairs of triples of ints up to 10^12. Part build: '
    'generated engine x known-target list (possibly empty) x persisted '
    'version tables derived from the spec by choosing per algorithm / state '
    'vector / value whether its current version is among the persisted ones '
    '(plus stale versions, plus algorithms absent from the tables), fed to '
    'schedule.build. Part build-store: the same through a real shelve store '
    '(record the old engine with version.record, load the bumped engine, '
    'build with db.versions()). Non-trivial: a pair that differs in exactly '
    'a later component while an earlier one ties (order); at least one '
    'algorithm bumped and one not (build). Distinct = SHA-1 of case JSON.'
    ' Algorithms may list an extra state vector that is empty until run. Aft'
    'er the pending-set comparison the schedule is drained (next_job_batch '
    '/ complete) and the units handed out are compared with the expected se'
    't. '
    ' In the store part one catalogue write may fail once (and the recordin'
    'g is repeated) before the database is reopened. '
    ' Versions may be recorded through the worker path (database server); t'
    'he order parts also use an implementer that overrides _get_ver / _set_'
    'ver. '
)
ASSUMPTIONS = [
    'version components are non-negative ints (documented contract)',
    'persisted tables have the shape db.versions() returns',
    'build parts: shelve backend / stub backend supplying targets(); the '
    'PostgreSQL backend is not run',
]

GRID = [0, 1, 2, 9, 10]


class _V:
    pass


def _mk(t):
    import dawgie

    class Ver(dawgie.Version):
        def __init__(self, t):
            self._version_ = dawgie.VERSION(*t)

    return Ver(t)


def _mk_foreign(t):
    '''an implementer that keeps its version elsewhere and overrides the
    accessors, as the class documentation allows; its _version_ attribute
    means something else'''
    import dawgie

    class Foreign(dawgie.Version):
        def __init__(self, t):
            self._version_ = dawgie.VERSION(0, 0, 0)  # not the version
            self._mine = dawgie.VERSION(*t)

        def _get_ver(self):
            return self._mine

        def _set_ver(self, ver):
            self._mine = ver

    return Foreign(t)


def _compare(out, a, b):
    _compare_with(out, a, b, _mk, '')
    if not out.failures:
        _compare_with(out, a, b, _mk_foreign, '@accessors-overridden')


def _compare_with(out, a, b, _mk, site):  # pylint: disable=redefined-outer-name
    import dawgie

    va, vb = _mk(a), _mk(b)
    ta, tb = tuple(a), tuple(b)
    checks = {
        '__eq__': (va == vb, ta == tb),
        '__ne__': (va != vb, ta != tb),
        '__lt__': (va < vb, ta < tb),
        '__le__': (va <= vb, ta <= tb),
        '__gt__': (va > vb, ta > tb),
        '__ge__': (va >= vb, ta >= tb),
        'newer': (va.newer(dawgie.VERSION(*b)), ta > tb),
    }
    for op, (got, want) in checks.items():
        if bool(got) != want:
            out.fail(f'order/{op}{site}',
                     f'{a} {op} {b}: got {got} want {want}')
    if va.asstring() != '.'.join(str(x) for x in a):
        out.fail(f'order/asstring{site}', f'{a} -> {va.asstring()}')
    if ta != tb and (ta[0] == tb[0]):
        out.nontrivial = True


def exec_order_row(case):
    out = core.Outcome()
    for b in itertools.product(GRID, repeat=3):
        _compare(out, case, list(b))
    return out


def exec_order_pair(case):
    out = core.Outcome()
    _compare(out, case[0], case[1])
    return out


_big = st.one_of(st.integers(0, 12), st.integers(0, 10**12))
_triple = st.tuples(_big, _big, _big).map(list)


@st.composite
def _pair(draw):
    a = draw(_triple)
    b = list(a)
    for i in range(3):
        if draw(st.integers(0, 2)) == 0:
            b[i] = draw(_big)
    return [a, b]


# ---- build


def _vs(v):
    return '.'.join(str(x) for x in v)


@st.composite
def _build_case(draw):
    spec = draw(engines.specs(max_algs=6, events=False))
    stale = ['0.9.9', '1.0.0', '7.7.7']
    marks = []
    for a in spec['algs']:
        mode = draw(
            st.sampled_from(
                ['same', 'same', 'same', 'alg', 'sv', 'val', 'absent', 'mix']
            )
        )
        m = {
            'absent': mode == 'absent',
            'alg': mode != 'alg'
            and not (mode == 'mix' and draw(st.booleans())),
            'svs': [
                {
                    'in': not (mode == 'mix' and draw(st.integers(0, 3)) == 0),
                    'vals': [
                        not (mode == 'mix' and draw(st.integers(0, 3)) == 0)
                        for _v in sv['vals']
                    ],
                }
                for sv in a['svs']
            ],
            'stale': draw(st.lists(st.sampled_from(stale), max_size=2)),
        }
        if mode == 'sv':
            j = draw(st.integers(0, len(a['svs']) - 1))
            m['svs'][j]['in'] = False
        if mode == 'val':
            j = draw(st.integers(0, len(a['svs']) - 1))
            k = draw(st.integers(0, len(a['svs'][j]['vals']) - 1))
            m['svs'][j]['vals'][k] = False
        marks.append(m)
    targets = draw(
        st.lists(
            st.sampled_from(['T1', 'T2', 'T3']),
            unique=True,
            min_size=draw(st.sampled_from([0, 1, 1, 1, 1, 2])),
            max_size=3,
        )
    )
    for a in spec['algs']:
        # a state vector that stays empty until the algorithm has run: it
        # has no persisted version and must not hide the ones listed after it
        if draw(st.integers(0, 3)) == 0:
            a['scratch'] = draw(st.integers(0, 3))
    return {'spec': spec, 'marks': marks, 'targets': targets,
            'future': draw(st.booleans()),
            'wfault': draw(st.one_of(st.none(), st.integers(0, 12))),
            'via_worker': draw(st.booleans())}


def _expected(case, ref):
    want = {}
    bumped = []
    for i, (a, m) in enumerate(zip(case['spec']['algs'], case['marks'])):
        changed = (
            m['absent']
            or not m['alg']
            or any(not s['in'] for s in m['svs'])
            or any(not v for s in m['svs'] for v in s['vals'])
        )
        bumped.append(changed)
        if changed:
            tag = ref.tag[i]
            want[tag] = (
                {'__all__'} if a['kind'] == 'analysis' else set(case['targets'])
            )
    return want, bumped


def _pending(sched):
    got = {}
    seen = set()
    stack = list(sched.ae.at)
    while stack:
        n = stack.pop()
        if id(n) in seen:
            continue
        seen.add(id(n))
        stack.extend(list(n))
        if n.get('todo'):
            got[n.tag] = set(n.get('todo'))
    return got


def _check(out, case, ref, sched):
    want, bumped = _expected(case, ref)
    want = {k: v for k, v in want.items() if v}
    got = _pending(sched)
    if got != want:
        miss = {k: sorted(v) for k, v in want.items() if got.get(k) != v}
        extra = {k: sorted(v) for k, v in got.items() if want.get(k) != v}
        out.fail(
            'build/pending-set',
            f'expected-but-different={miss} scheduled-but-unexpected={extra} '
            f'targets={case["targets"]}',
        )
    view = {d['name']: set(d['targets']) for d in sched.view_todo()}
    if view != got:
        out.fail('build/view_todo-differs', f'{view} vs node todo {got}')
    if any(bumped) and not all(bumped):
        out.nontrivial = True
        out.label('some-bumped-some-not')
    if any(a.get('scratch') is not None for a in case['spec']['algs']):
        out.label('empty-state-vector-listed')
    if not case['targets']:
        out.label('no-targets')
    if any(
        not m['alg'] or m['absent'] for m in case['marks']
    ):
        out.label('alg-version-bumped')
    if any(not s['in'] for m in case['marks'] for s in m['svs']):
        out.label('sv-version-bumped')
    if any(not v for m in case['marks'] for s in m['svs'] for v in s['vals']):
        out.label('value-version-bumped')


def _drain(out, case, ref, sched):
    '''what was scheduled is also handed out: release batch after batch the
    way farm.dispatch does, report every unit done (nothing new), and compare
    the units that came out with the ones that had to be scheduled'''
    import dawgie.pl.logger.chronicle as chron

    want, _bumped = _expected(case, ref)
    want = {k: v for k, v in want.items() if v}
    real_append = chron.append
    chron.append = lambda *_a, **_k: None  # the journal is C18
    released = {}
    try:
        for _round in range(3 * len(ref.tag) + 3):
            jobs = sched.next_job_batch()
            if not jobs:
                break
            for j in jobs:
                ts = sorted(j.get('do'))
                j.get('do').clear()
                for t in ts:
                    if t in released.get(j.tag, ()):
                        out.fail('build/unit-released-twice', f'{j.tag}[{t}]')
                    released.setdefault(j.tag, set()).add(t)
            for j in jobs:
                for t in sorted(released[j.tag] & set(j.get('doing'))):
                    sched.complete(j, 1, t, {}, sched.State.success)
    finally:
        chron.append = real_append
        sched.suc.clear()
        sched.err.clear()
    if released != want:
        out.fail(
            'build/scheduled-but-never-handed-out',
            'not released='
            f'{ {k: sorted(v - released.get(k, set())) for k, v in want.items() if v - released.get(k, set())} } '
            'released unexpectedly='
            f'{ {k: sorted(v - want.get(k, set())) for k, v in released.items() if v - want.get(k, set())} }')
    elif len(want) >= 2:
        out.label('two-algorithms-handed-out')
    left = [j.tag for j in sched.que]
    if left and not out.failures:
        out.fail('build/queue-not-empty-after-drain', f'{left}')


def exec_build(case):
    import dawgie
    import dawgie.pl.schedule as sched
    import dawgie.pl.version

    out = core.Outcome()
    spec = case['spec']
    db = world.StubDB().install()
    db.target_list = list(case['targets'])
    with engines.loaded(spec) as eng:
        ref = eng.ref
        tasks, palg, psv, pv = {}, {}, {}, {}
        for i, (a, m) in enumerate(zip(spec['algs'], case['marks'])):
            if m['absent']:
                continue
            tag = ref.tag[i]
            tasks[tag.split('.')[0]] = True
            palg[tag] = list(m['stale']) + ([_vs(a['ver'])] if m['alg'] else [])
            for sv, sm in zip(a['svs'], m['svs']):
                sn = f'{tag}.{sv["name"]}'
                psv[sn] = list(m['stale']) + ([_vs(sv['ver'])] if sm['in'] else [])
                for v, vin in zip(sv['vals'], sm['vals']):
                    pv[f'{sn}.{v["name"]}'] = list(m['stale']) + (
                        [_vs(v['ver'])] if vin else []
                    )
        # a stale version string equal to the current one means "persisted"
        for i, (a, m) in enumerate(zip(spec['algs'], case['marks'])):
            if _vs(a['ver']) in m['stale']:
                m['alg'] = True
            for sv, sm in zip(a['svs'], m['svs']):
                if _vs(sv['ver']) in m['stale']:
                    sm['in'] = True
                for k, v in enumerate(sv['vals']):
                    if _vs(v['ver']) in m['stale']:
                        sm['vals'][k] = True
        f = eng.factories
        with warnings.catch_warnings():
            warnings.simplefilter('ignore')
            latest = dawgie.pl.version.current(
                f[dawgie.Factories.analysis]
                + f[dawgie.Factories.regress]
                + f[dawgie.Factories.task]
            )
            try:
                sched.build(f, latest, (tasks, palg, psv, pv))
                _check(out, case, ref, sched)
                if not out.failures:
                    _drain(out, case, ref, sched)
            finally:
                sched.que = []
                sched.per = []
    return out


def _old_spec(case):
    import copy

    old = copy.deepcopy(case['spec'])
    for a, m in zip(old['algs'], case['marks']):
        if not m['alg']:
            a['ver'] = [a['ver'][0] + 4, 0, 0]
        for sv, sm in zip(a['svs'], m['svs']):
            if not sm['in']:
                sv['ver'] = [sv['ver'][0], sv['ver'][1] + 5, 0]
            for v, vin in zip(sv['vals'], sm['vals']):
                if not vin:
                    v['ver'] = [v['ver'][0], v['ver'][1], v['ver'][2] + 6]
    # an absent algorithm did not exist in the old engine
    keep = [i for i, m in enumerate(case['marks']) if not m['absent']]
    remap = {o: n for n, o in enumerate(keep)}
    algs = []
    for i in keep:
        a = old['algs'][i]
        a['inputs'] = [
            dict(r, to=remap[r['to']]) for r in a['inputs'] if r['to'] in remap
        ]
        a['feedback'] = [
            dict(r, to=remap[r['to']]) for r in a['feedback']
            if r['to'] in remap
        ]
        algs.append(a)
    old['algs'] = algs
    return old


def exec_build_store(case):
    import dawgie
    import dawgie.pl.schedule as sched
    import dawgie.pl.version

    out = core.Outcome()
    for m in case['marks']:
        m['stale'] = []
    store = rig.ShelveRig()
    try:
        for t in case['targets']:
            dawgie.db.add(t)
        old = _old_spec(case)
        with warnings.catch_warnings():
            warnings.simplefilter('ignore')
            if old['algs']:
                with engines.loaded(old) as eng:
                    f = eng.factories
                    from .. import store as storemod

                    wf = case.get('wfault')
                    with storemod.catalogue_write_fault(
                            wf if wf is not None else 10 ** 9) as hit:
                        for fac in (
                            f[dawgie.Factories.analysis]
                            + f[dawgie.Factories.regress]
                            + f[dawgie.Factories.task]
                        ):
                            bot = fac(dawgie.util.task_name(fac))
                            # versions are recorded by the foreman or, as
                            # worker.Context.run does, by a worker through
                            # the database server
                            import contextlib

                            side = (store.worker_side if case.get('via_worker')
                                    else contextlib.nullcontext)
                            try:
                                with side():
                                    dawgie.pl.version.record(bot)
                            except OSError:
                                # one catalogue write failed (disk full for
                                # a moment): the recording is done again
                                with side():
                                    dawgie.pl.version.record(bot)
                    if case.get('via_worker'):
                        out.label('versions-recorded-by-a-worker')
                    if hit[0]:
                        out.label('catalogue-write-failed-once-while-'
                                  'recording')
            if case.get('future') and old['algs']:
                # a later generation was recorded as well (the software was
                # rolled forward and is now back): every element has one more
                # persisted version, recorded after the one in use now
                import copy

                fut = copy.deepcopy(old)
                for a in fut['algs']:
                    a['ver'] = [a['ver'][0] + 10, 1, 1]
                    for sv in a['svs']:
                        sv['ver'] = [sv['ver'][0] + 10, 1, 1]
                        for v in sv['vals']:
                            v['ver'] = [v['ver'][0] + 10, 1, 1]
                with engines.loaded(fut) as eng:
                    f = eng.factories
                    for fac in (
                        f[dawgie.Factories.analysis]
                        + f[dawgie.Factories.regress]
                        + f[dawgie.Factories.task]
                    ):
                        dawgie.pl.version.record(
                            fac(dawgie.util.task_name(fac))
                        )
                out.label('later-generation-recorded')
            store.reopen_cycle()
            with engines.loaded(case['spec']) as eng:
                f = eng.factories
                latest = dawgie.pl.version.current(
                    f[dawgie.Factories.analysis]
                    + f[dawgie.Factories.regress]
                    + f[dawgie.Factories.task]
                )
                try:
                    sched.build(f, latest, dawgie.pl.version.persistent())
                    _check(out, case, eng.ref, sched)
                finally:
                    sched.que = []
                    sched.per = []
    finally:
        store.close()
    return out


def parts(tier):
    q = tier == 'quick'
    return [
        core.Part(
            'order', exec_order_row,
            enum=lambda: (list(t) for t in itertools.product(GRID, repeat=3)),
            exhaustive=True,
            enum_note='125 left operands x 125 right operands = 15 625 '
            'ordered pairs, 8 predicates each',
        ),
        core.Part('order-random', exec_order_pair, strategy=_pair(),
                  cases=2000 if q else 100000, batch=1000),
        core.Part('build', exec_build, strategy=_build_case(),
                  cases=1600 if q else 50000, batch=200),
        core.Part('build-store', exec_build_store, strategy=_build_case(),
                  cases=400 if q else 10000, batch=100),
    ]
