'''C10 - the life-cycle follows the documented state machine and always
returns to rest.

The real FSM (production mode) on the FSM rig (vf/fsmrig.py): the harness
fires the external triggers under the guards their real callers apply
(pl.start boots once; farm.dispatch archives when idle with new data; the
submit path gits / stages / refuses; the crossroads updates when active),
completes the outstanding background steps (load, reload, archive,
introspection) in any order relative to later events, and tries every trigger
that is not allowed in the current configuration.
'''

import itertools

from hypothesis import strategies as st

from .. import core, fsmrig

ID = 'C10'
LEVEL = 'exploration'
RULE = (
    'Generated: words of 3-25 events over {boot, step j (complete the j-th '
    'outstanding background step), git, staged, archive (farm.dispatch with '
    'new data flagged), update, submit (the real fe.submit.Process steps, '
    'succeeding or failing in step 2, any priority), try t (fire trigger t '
    'when state.dot has no arc for it from the current state)}. Part words: '
    'random words; part bounded: every word of length <= 4 (quick) / 5 '
    '(thorough) over a 10-letter alphabet after boot. After each word all '
    'outstanding steps are completed. Non-trivial: a trigger or submission '
    'is fired while a background step is outstanding. Distinct = SHA-1 of '
    'case JSON.'
    " Further events: status (a busy worker's status message through the re"
    'al farm.Hand; proceed only at rest in running and for the same revisio'
    'n) and reset (fe.api.cmd_reset; refused without effect unless at rest '
    'in running). '
    ' reset is also sent through the legacy endpoint fe.app.schedule_reset.'
    ' '
)
ASSUMPTIONS = [
    'callbacks of background steps are serialised on the harness thread (in '
    'production they arrive from the reactor thread pool)',
    'external triggers only under their callers\' guards: starting_trigger '
    'from pl.start, archiving_trigger from farm.dispatch, gitting / running '
    'from fe.submit.Process, update_trigger from the crossroads when active; '
    'internal triggers (contemplation, loading, updating, and running out of '
    'contemplation / archiving) are fired by the step completions only',
    'GnuPG, GUI, log server start-up, git and module reloading are stubbed; '
    'database (shelve) and engine (generated package) are real',
    'the expected arcs are parsed from state.dot by the harness and must '
    'equal a hand-written table of the documented arcs',
]

ARCS = fsmrig.HAND_ARCS
LEGAL_PAIRS = {(s, d) for (s, _t), d in ARCS.items()}


def _fire(r, trig, out, where):
    '''fire a trigger that is not on an arc from the current state'''
    import transitions

    before = r.snapshot()
    try:
        getattr(r.fsm, trig)()
    except transitions.MachineError:
        if r.snapshot() != before:
            out.fail('reject/side-effects',
                     f'{where}: {trig} rejected in {before[0]} but state '
                     f'changed: {before} -> {r.snapshot()}')
        return
    out.fail('reject/illegal-trigger-accepted',
             f'{where}: {trig} has no arc from {before[0]} but was accepted: '
             f'now {r.fsm.state}')


def _check(r, out, where, seen_trail):
    from dawgie.pl.state import Status

    # every state change follows a documented arc
    tr = r.trail
    for a, b in zip(tr[seen_trail[0]:], tr[seen_trail[0] + 1:]):
        if (a, b) not in LEGAL_PAIRS:
            out.fail('arc/undocumented-transition',
                     f'{where}: {a} -> {b}; trail {tr[-8:]}')
    # archive returns to where it came from
    for i in range(max(1, seen_trail[0]), len(tr) - 1):
        if tr[i] == 'archiving' and tr[i + 1] != tr[i - 1]:
            out.fail('arc/archive-does-not-return-to-origin',
                     f'{where}: {tr[i - 1]} -> archiving -> {tr[i + 1]}')
    seen_trail[0] = max(0, len(tr) - 1)
    if r.fsm.is_pipeline_active():
        if r.fsm.state != 'running' or r.lifecycle_steps():
            out.fail('active/declared-while-not-at-rest',
                     f'{where}: state={r.fsm.state} outstanding='
                     f'{[s.name for s in r.lifecycle_steps()]}')
    if (r.fsm.state in ('running', 'gitting')
            and r.fsm.transitioning == Status.active and r.lifecycle_steps()):
        out.fail('rest/step-outstanding-at-rest',
                 f'{where}: at rest in {r.fsm.state} with '
                 f'{[s.name for s in r.lifecycle_steps()]} outstanding')
    for name, exc in r.errors:
        out.fail(f'step/raised-{type(exc).__name__}@{name}',
                 f'{where}: background step {name} raised {exc!r}; '
                 f'trail {tr[-6:]}')
    r.errors.clear()


def run_word(word, out):
    import dawgie.fe.submit as fsub
    import transitions

    err = fsmrig.check_arc_tables()
    if err:
        out.fail('arc/state-dot-differs-from-documentation', err)
        return
    r = fsmrig.Rig()
    seen = [0]
    updates = 0
    try:
        booted = False
        word_tail = []
        queue = list(word)
        while queue or word_tail:
            ev = word_tail.pop(0) if word_tail else queue.pop(0)
            kind = ev[0]
            where = str(ev)
            busy = bool(r.lifecycle_steps())
            if kind == 'boot':
                if not booted:
                    r.fsm.starting_trigger()
                    booted = True
                else:
                    _fire(r, 'starting_trigger', out, where)
            elif kind == 'step':
                steps = r.lifecycle_steps()
                if steps:
                    r.complete(steps[ev[1] % len(steps)])
            elif kind == 'git':
                if r.fsm.is_pipeline_active():
                    r.fsm.gitting_trigger()
            elif kind == 'staged':
                if r.fsm.state == 'gitting':
                    r.fsm.running_trigger()
            elif kind == 'archive':
                r.farm.ARCHIVE = True
                r.farm.dispatch()
                if busy:
                    out.nontrivial = True
                    out.label('dispatch-while-step-outstanding')
            elif kind == 'update':
                if r.fsm.is_pipeline_active():
                    n = r.pipelines
                    r.fsm.update_trigger()
                    updates += 1
                    if len(ev) > 1 and ev[1]:
                        word_tail.append(['guarded', ev[1] - 1])
            elif kind == 'submit':
                active = r.fsm.is_pipeline_active()
                before = r.snapshot()
                r.automatic_ok = bool(ev[1])
                # ev[1] == 2: the changeset is already in the repository's
                # history (refused in step 1 after the activity check)
                r.already_applied = ev[1] == 2
                req = _Req()
                mod = fsub
                if len(ev) > 3 and ev[3]:
                    import dawgie.fe.api.submit as mod  # the /api copy
                p = mod.Process('cs1', lambda: None, req, ev[2])
                p.step_0()
                r.run_calls()
                if r.already_applied:
                    r.already_applied = False
                    out.label('changeset-already-applied')
                    if r.snapshot() != before:
                        out.fail('submit/refused-with-side-effects',
                                 f'{where}: changeset already in history, '
                                 f'refused, but {before} -> {r.snapshot()}')
                    if not req.done:
                        out.fail('submit/no-answer', where)
                    _check(r, out, where, seen)
                    if out.failures:
                        return
                    continue
                if busy:
                    out.nontrivial = True
                    out.label('submission-while-step-outstanding')
                if not active:
                    if r.snapshot() != before:
                        out.fail('submit/refused-with-side-effects',
                                 f'{where}: pipeline not active, submission '
                                 f'refused, but {before} -> {r.snapshot()}')
                    if not req.done:
                        out.fail('submit/no-answer', where)
                else:
                    out.label('submission-accepted' if ev[1]
                              else 'submission-failed-in-step-2')
            elif kind == 'newrev':
                r.new_revision()
                out.label('revision-adds-an-import')
            elif kind == 'work':
                # an algorithm runs for real: a value and its metrics are
                # stored, the next introspection has data to digest
                if r.work():
                    out.label('real-execution-stored-metrics')
            elif kind == 'guarded':
                # an arc whose before-callback claims the transitioning
                # guard, fired while the reload step still holds it
                trig = ['archiving_trigger', 'loading_trigger'][ev[1] % 2]
                if r.fsm.state == 'updating' and busy and (
                        r.fsm.transitioning.name != 'active'):
                    out.nontrivial = True
                    out.label('guarded-trigger-while-reload-outstanding')
                    before = r.snapshot()
                    try:
                        getattr(r.fsm, trig)()
                        out.fail('reject/guarded-trigger-accepted',
                                 f'{where}: {trig} accepted in updating/'
                                 f'{before[1].name} with the reload step '
                                 'outstanding')
                    except (transitions.MachineError, TypeError):
                        if r.snapshot() != before:
                            out.fail('reject/side-effects',
                                     f'{where}: {trig} rejected but '
                                     f'{before} -> {r.snapshot()}')
            elif kind == 'status':
                # a busy worker asks whether to go on: "proceed" is the
                # pipeline declaring itself active, which it may only do at
                # rest in running (and for the worker's own revision)
                import dawgie.context
                import dawgie.pl.message as message

                from .. import rig as rigmod
                from .. import world

                same = not (len(ev) > 1 and ev[1])
                rev = dawgie.context.git_rev if same else 'some-other-revision'
                sock = rigmod.LoopSocket(
                    r.farm.Hand(world.Address('h9', 4002)))
                message.send(message.make(typ=message.Type.status, rev=rev),
                             sock)
                fr = world.frames(sock.transport.data)
                sock.close()
                go = [m.type == message.Type.response and m.success
                      for m in fr]
                want = same and r.fsm.is_pipeline_active() and booted
                if not r.fsm.is_pipeline_active():
                    out.nontrivial = True
                    out.label('status-poll-while-not-at-rest-in-running')
                if len(fr) != 1 or bool(go[0]) != bool(want):
                    out.fail('active/worker-told-wrongly',
                             f'{where}: state={r.fsm.state} transitioning='
                             f'{r.fsm.transitioning.name} same-revision='
                             f'{same}: reply proceed={go}, expected {want}')
            elif kind == 'reset':
                # the operator's entry to the update edge (POST
                # /api/cmd/reset): refused without any effect unless the
                # pipeline is at rest in running
                import dawgie.fe.api as api
                import dawgie.fe.app as app

                active = r.fsm.is_pipeline_active()
                before = r.snapshot()
                legacy = len(ev) > 2 and ev[2]
                if legacy:
                    out.label('reset-through-the-legacy-endpoint')
                try:
                    if legacy:  # GET /app/reset
                        res = app.schedule_reset(['true'] if ev[1]
                                                 else ['false'])
                    else:
                        res = api.cmd_reset(['true'] if ev[1] else None)
                except transitions.MachineError as exc:
                    out.fail('reject/reset-not-refused-before-acting',
                             f'{where}: state={before[0]} -> {exc}')
                    return
                r.run_calls()
                if not active:
                    out.label('reset-refused')
                    if busy:
                        out.nontrivial = True
                    if r.snapshot() != before:
                        out.fail('reject/side-effects',
                                 f'{where}: reset refused ({res!r:.80}) but '
                                 f'{before} -> {r.snapshot()}')
                else:
                    updates += 1
                    out.label('reset-accepted')
            elif kind == 'try':
                trig = fsmrig.TRIGGERS[ev[1] % len(fsmrig.TRIGGERS)]
                if (r.fsm.state, trig) not in ARCS:
                    if busy:
                        out.nontrivial = True
                        out.label('illegal-trigger-while-step-outstanding')
                    _fire(r, trig, out, where)
            _check(r, out, where, seen)
            if out.failures:
                return
        # every accepted trigger ends at rest once its steps complete
        for _ in range(40):
            steps = r.lifecycle_steps()
            if not steps:
                break
            r.complete(steps[0])
            _check(r, out, 'final completion', seen)
            if out.failures:
                return
        if booted and not r.at_rest():
            out.fail('rest/not-reached',
                     f'all steps completed but state={r.fsm.state} '
                     f'transitioning={r.fsm.transitioning.name}; trail '
                     f'{r.trail[-8:]}')
        # an update reloads and refreshes: one _pipeline per boot / update
        # whose cycle was allowed to finish
        if booted and r.pipelines != 1 + r.trail.count('updating') // 2:
            out.fail('arc/update-skipped-refresh',
                     f'{r.pipelines} loads for 1 boot + '
                     f'{r.trail.count("updating") // 2} updates; trail '
                     f'{r.trail}')
        del transitions, updates
    finally:
        r.close()


class _Req:
    def __init__(self):
        self.body = b''
        self.done = False

    def write(self, b):
        self.body += b

    def finish(self):
        self.done = True


def execute(case):
    out = core.Outcome()
    run_word(case['word'], out)
    return out


_ev = st.one_of(
    st.just(['boot']),
    st.tuples(st.just('step'), st.integers(0, 2)).map(list),
    st.tuples(st.just('step'), st.integers(0, 2)).map(list),
    st.tuples(st.just('step'), st.integers(0, 2)).map(list),
    st.just(['git']), st.just(['staged']), st.just(['archive']),
    st.just(['archive']), st.just(['update']), st.just(['update', 1]),
    st.just(['update', 2]),
    st.tuples(st.just('submit'), st.integers(0, 2),
              st.sampled_from(['0', '1', '2', '3']),
              st.integers(0, 1)).map(list),
    st.tuples(st.just('submit'), st.integers(0, 2),
              st.sampled_from(['0', '1', '2', '3']),
              st.integers(0, 1)).map(list),
    st.tuples(st.just('step'), st.integers(0, 2)).map(list),
    st.tuples(st.just('step'), st.integers(0, 2)).map(list),
    st.tuples(st.just('try'), st.integers(0, 7)).map(list),
    st.tuples(st.just('try'), st.integers(0, 7)).map(list),
    st.tuples(st.just('guarded'), st.integers(0, 1)).map(list),
    st.tuples(st.just('guarded'), st.integers(0, 1)).map(list),
    st.just(['work']),
    st.just(['newrev']),
    st.tuples(st.just('status'), st.sampled_from([0, 0, 0, 1])).map(list),
    st.tuples(st.just('status'), st.sampled_from([0, 0, 0, 1])).map(list),
    st.tuples(st.just('reset'), st.integers(0, 1)).map(list),
    st.tuples(st.just('reset'), st.integers(0, 1), st.just(1)).map(list),
)
_word = st.fixed_dictionaries({
    'word': st.lists(_ev, min_size=2, max_size=24).map(
        lambda w: [['boot']] + w),
})

ALPHABET = [['step', 0], ['git'], ['staged'], ['archive'], ['update', 1],
            ['submit', 1, '0', 1], ['submit', 2, '3', 0], ['try', 2],
            ['try', 5], ['guarded', 0]]


def _bounded(depth):
    def gen():
        for n in range(1, depth + 1):
            for w in itertools.product(ALPHABET, repeat=n):
                yield {'word': [['boot']] + [list(e) for e in w]}
    return gen


@st.composite
def _cycle_words(draw):
    '''boot, then 2-4 update cycles allowed to finish, some preceded by a
    real execution (metrics) or an idle archive, with stray events between
    the step completions'''
    word = [['boot'], ['step', 0], ['step', 0]]
    for _ in range(draw(st.integers(2, 4))):
        if draw(st.booleans()):
            word.append(['work'])
        if draw(st.integers(0, 2)) == 0:
            word.append(['newrev'])
        if draw(st.integers(0, 3)) == 0:
            word += [['archive'], ['step', 0]]
        word.append(['update', draw(st.integers(0, 2))])
        for _ in range(6):
            if draw(st.integers(0, 4)) == 0:
                word.append(draw(_ev))
            word.append(['step', 0])
    return {'word': word}


def parts(tier):
    q = tier == 'quick'
    depth = 3 if q else 5
    return [
        core.Part('bounded', execute, enum=_bounded(depth), exhaustive=True,
                  enum_note=f'every word of length <= {depth} over a 10-letter '
                  'event alphabet after boot'),
        core.Part('words', execute, strategy=_word,
                  cases=800 if q else 40000, batch=100),
        core.Part('cycles', execute, strategy=_cycle_words(),
                  cases=240 if q else 10000, batch=80),
    ]
