'''C11 - work goes only to eligible workers, only while the pipeline is
active.

The pipeline simulator (real schedule + farm over a generated engine) with
worker registrations of current and stale (look-alike) revisions, disconnects,
status polls, reloads to a new revision, the activity gate (life-cycle
stand-in goes inactive on archiving_trigger, on reload and on demand) and
dispatch ticks.  Everything is judged from the bytes on the worker transports
and a pass-through spy on Hand.do.
'''

from .. import core, sim

ID = 'C11'
LEVEL = 'exploration'
RULE = (
    'Generated: engine spec x 1-3 targets x history of 6-60 operations: '
    'join(current | stale revision: empty, prefix of the current one, '
    'current+"0", upper-case, previous), leave, status poll (current | '
    'stale), tick, requests, replies (success reports set the archive '
    'flag), active on/off, archived (end of an archive), reload to a new '
    'revision (rev-1, rev-12, rev-2, rev-120). Non-trivial: a tick with both '
    'eligible and ineligible connections around and more queued tasks than '
    'eligible workers, or a life-cycle change between a join and a tick. '
    'Distinct = SHA-1 of case JSON.'
    ' Part runid: a real shelve store holding results under generated run I'
    'Ds (0..12, 98..101, 999, 1000); farm.rerunid for an event without run '
    'ID must return max+1. '
)
ASSUMPTIONS = [
    'one register message per worker connection (what worker.cluster.execute '
    'does); a worker closes its connection after a task or an abort',
    'life-cycle stand-in (is_pipeline_active / archiving_trigger); the real '
    'FSM is C10/C12',
    'stub database: next() hands out increasing integers; "strictly larger" '
    'is judged against every run ID seen in earlier task messages',
    'the triggering event of a job is the last organize() that named it '
    '(request: no run ID; parent report: the parent\'s run ID, none when a '
    'fed-back value was reported)',
]


def check_event(s, ev, out):
    import dawgie.pl.message as message

    op = ev['op'][0]
    where = str(ev['op'])
    by_hand = {id(w.hand): w for w in s.workers}
    st = s.__dict__.setdefault('_c11', {'seen_runids': set(), 'joined': {},
                                        'tasked': set(), 'next_seen': 0,
                                        'active_at_start': True})
    active_start = st['active_at_start']
    # ---- every Hand.do of this operation
    for c in ev['calls']:
        if c[0] != 'do':
            continue
        _d, hand, task, active, rev, was_closed = c
        w = by_hand.get(id(hand))
        if not active:
            out.fail('gate/task-sent-while-not-active',
                     f'{where}: {task.jobid}[{task.target}] handed out while '
                     f'the pipeline is {s.fsm.state}')
        if w is None:
            out.fail('eligible/task-to-unknown-connection', where)
            continue
        if w.rev != rev:
            out.fail('eligible/task-to-stale-revision',
                     f'{where}: worker registered {w.rev!r}, pipeline runs '
                     f'{rev!r}, got {task.jobid}[{task.target}]')
        if id(hand) in st['tasked']:
            out.fail('eligible/second-task-to-one-connection', where)
        st['tasked'].add(id(hand))
        if was_closed:
            out.fail('eligible/task-to-closed-connection', where)
    for w in s.workers:
        if w.sock.transport.late:
            fr = w.sock.transport.late
            w.sock.transport.late = b''
            if any(m.type == message.Type.task for m in _frames(fr)):
                out.fail('eligible/task-written-after-disconnect',
                         f'{where}: {w.rev!r}')
        if w.tasks > 1:
            out.fail('eligible/second-task-to-one-connection', where)
    # ---- a task message is made for a unit the scheduler released: never a
    # second one for a unit that is still out
    seen = {}
    for u in s.units:
        if u.answered:
            continue
        if u.key in seen and u.key not in s.lost_keys:
            out.fail('message/second-task-for-a-unit-still-executing',
                     f'{where}: {u} while {seen[u.key]} is unanswered')
            break
        seen[u.key] = u
    # ---- the gate
    if op == 'tick' and not active_start:
        if ev['released'] or any(c[0] in ('do', 'put') for c in ev['calls']):
            out.fail('gate/dispatch-while-not-active',
                     f'{where}: released {ev["released"]}')
        if ev['before'] != ev['after']:
            out.fail('gate/queues-changed-while-not-active', where)
        out.label('tick-while-not-active')
    # ---- registration
    if op == 'join':
        w = ev['worker']
        in_farm = any(h is w.hand for h in s.farm._workers)
        fr = _frames(w.sock.transport.data)
        aborted = any(m.type == message.Type.response and m.success is False
                      for m in fr)
        if w.rev != s.rev:
            out.label('stale-registration')
            if in_farm or not aborted or not w.sock.transport.closed:
                out.fail('register/stale-revision-accepted',
                         f'{where}: reported {w.rev!r}, pipeline runs '
                         f'{s.rev!r}: listed={in_farm} aborted={aborted} '
                         f'closed={w.sock.transport.closed}')
        elif aborted or not (in_farm or w.tasks):
            out.fail('register/current-revision-refused',
                     f'{where}: listed={in_farm} aborted={aborted}')
    if op == 'status':
        r = ev['status']
        ok = [m for m in r['frames'] if m.type == message.Type.response]
        want = bool(r['rev_ok'] and r['active'])
        if len(ok) != 1 or bool(ok[0].success) != want or not r['closed']:
            out.fail('status/wrong-answer',
                     f'{where}: rev_ok={r["rev_ok"]} active={r["active"]} -> '
                     f'{[(m.type.name, m.success) for m in r["frames"]]} '
                     f'closed={r["closed"]}')
    if op == 'reload':
        r = ev['reload']
        if r['left_in_farm']:
            out.fail('gate/workers-kept-across-reload', where)
        for w in r['waiting']:
            if not w.got_task and not w.aborted:
                out.fail('gate/waiting-worker-not-told-to-leave',
                         f'{where}: {w.rev!r}')
        st['tasked'] = set()
    # ---- idle list = registered, connected, untasked, current revision
    want = sorted(id(w.hand) for w in s.workers
                  if not w.closed and not w.tasks and not w.aborted
                  and w.rev == s.rev and w.registered_ok)
    got = sorted(id(h) for h in s.farm._workers)
    if s.fsm.active and want != got and op != 'active':
        out.fail('eligible/idle-list-differs',
                 f'{where}: farm lists {len(got)} idle workers, expected '
                 f'{len(want)}')
    # ---- conservation and message content
    queued = [u for u in s.units if not u.handed and not u.answered]
    in_cluster = [(m.jobid, m.target or '__all__', m.runid)
                  for m in s.farm._cluster]
    if sorted((u.jobid, u.target, u.runid) for u in queued) != sorted(in_cluster):
        out.fail('queue/conservation',
                 f'{where}: released-not-handed={queued} cluster={in_cluster}')
    if op == 'tick':
        issued = s.db.issued[st['next_seen']:]
        st['next_seen'] = len(s.db.issued)
        jobs = {}
        for u in ev['released']:
            jobs.setdefault(u.jobid, []).append(u)
        fresh_needed = 0
        for tag, us in jobs.items():
            i = s.ref.tag.index(tag)
            a = s.spec['algs'][i]
            carried = ev['carried'].get(tag)
            if carried is None:
                fresh_needed += 1
            for u in us:
                m = [x for x in s.farm._cluster if (
                    x.jobid, x.target or '__all__', x.runid) == (
                    u.jobid, u.target, u.runid)]
                m = m[0] if m else u.msg
                if m is None:
                    continue
                want_t = None if a['kind'] == 'analysis' else u.target
                want_f = (f'{s.eng.base}.{s.spec["pkgs"][a["pkg"]]}',
                          a['kind'])
                if m.target != want_t or tuple(m.factory) != want_f \
                        or m.jobid != tag:
                    out.fail('message/wrong-unit',
                             f'{where}: {u}: target={m.target} factory='
                             f'{m.factory} want {want_t} {want_f}')
                if a['kind'] == 'regress':
                    if u.runid != 0:
                        out.fail('runid/regression-not-zero', f'{u}')
                elif carried is not None:
                    if u.runid != carried:
                        out.fail('runid/event-run-id-not-reused',
                                 f'{where}: {u} event carried {carried}')
                else:
                    if u.runid not in issued:
                        out.fail('runid/not-freshly-drawn',
                                 f'{where}: {u} drawn this tick: {issued}')
                    elif st['seen_runids'] and u.runid <= max(
                            st['seen_runids']):
                        out.fail('runid/not-strictly-larger',
                                 f'{where}: {u} seen {max(st["seen_runids"])}')
        if len(issued) != fresh_needed:
            out.fail('runid/drawn-when-not-needed'
                     if len(issued) > fresh_needed else 'runid/not-drawn',
                     f'{where}: next() called {len(issued)}x, '
                     f'{fresh_needed} released jobs had no run ID')
        for u in ev['released']:
            st['seen_runids'].add(u.runid)
        # non-triviality
        elig = [w for w in s.workers if w.rev == s.rev and w.registered_ok]
        inel = [w for w in s.workers if w.rev != s.rev or w.closed]
        if elig and inel and len(ev['released']) + len(queued) > 0:
            out.nontrivial = True
            out.label('tick-with-eligible-and-ineligible')
    if op in ('active', 'archived', 'reload') or (
            op == 'tick' and active_start and not s.fsm.active):
        if any(not w.closed for w in s.workers):
            out.nontrivial = True
            out.label('lifecycle-change-with-workers-waiting')
    if op == 'tick' and active_start and not s.fsm.active:
        out.label('archive-started-by-dispatch')
    if ev['errors']:
        for e in ev['errors']:
            if e[0] == 'exception':
                out.fail('farm/swallowed-exception', f'{e} op={ev["op"]}')
    st['active_at_start'] = s.fsm.active


def _frames(data):
    from .. import world

    return world.frames(data)


def execute(case):
    def on_event(s, ev, out):
        check_event(s, ev, out)

    return sim.run_history(case, on_event, None, pid=ID, setup=_setup)


def _setup(s):
    s.fsm.archive_blocks = True


def exec_runid(case):
    '''the shelve backend's db.next() behind farm.rerunid: with results of
    generated run IDs in the store (one to four digits), an event that
    carries no run ID gets one that is strictly larger than every stored
    one; results stored under it move the next draw on'''
    import dawgie.db
    import dawgie.pl.dag
    import dawgie.pl.farm as farm

    from .. import store as storemod

    out = core.Outcome()
    pool = [{'task': 'tk', 'name': 'alpha', 'ver': [1, 0, 0],
             'svs': [{'name': 's', 'ver': [1, 0, 0], 'vals': ['v'],
                      'vers': [[1, 0, 0]], 'inh': [0]}]}]
    s = storemod.Store(pool)
    try:
        known = set()
        for n, run in enumerate(case['runs']):
            s.update('T1', run, 0, [n])
            known.add(run)
            if len({len(str(r)) for r in known}) > 1:
                out.nontrivial = True
                out.label('stored-run-ids-of-different-lengths')
            job = dawgie.pl.dag.Node('tk.alpha')
            job.set('runid', None)
            got = farm.rerunid(job)
            if got != max(known) + 1:
                out.fail('runid/not-strictly-larger',
                         f'stored run IDs {sorted(known)}: an event without '
                         f'run ID was given {got}, expected '
                         f'{max(known) + 1}')
                break
            if case['use'][n % len(case['use'])]:
                s.update('T1', got, 0, [n, 'fresh'])
                known.add(got)
            job.set('runid', run)
            if farm.rerunid(job) != run:
                out.fail('runid/carried-id-not-kept', f'{run}')
                break
    finally:
        s.close()
    return out


def _runid_cases():
    from hypothesis import strategies as st

    rid = st.one_of(st.integers(0, 12), st.sampled_from(
        [8, 9, 10, 11, 98, 99, 100, 101, 999, 1000]))
    return st.fixed_dictionaries({
        'runs': st.lists(rid, min_size=1, max_size=8),
        'use': st.lists(st.booleans(), min_size=1, max_size=4),
    })


def parts(tier):
    q = tier == 'quick'
    return [
        core.Part('runid', exec_runid, strategy=_runid_cases(),
                  cases=240 if q else 6000, batch=60),
        core.Part(
            'history', execute,
            strategy=sim.histories(
                weights={'join': 5, 'leave': 2, 'status': 2, 'active': 1,
                         'archived': 2, 'reload': 1, 'tick': 4, 'rep': 3,
                         'auto': 6, 'auto2': 2, 'joinx': 3},
                empty_targets=False, max_ops=60, min_ops=6),
            cases=1600 if q else 50000, batch=200,
        ),
    ]
