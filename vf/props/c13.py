'''C13 - the database lock is exclusive, survives client crashes, is eventually
granted.

Real comms.Worker protocol objects (one per client connection) on recording
transports; the 3-second LoopingCall and reactor.callLater run on a
twisted.internet.task.Clock owned by the harness, so the harness decides the
interleaving of acquire / poll / release / disconnect.  The store is opened
once per shard so that DBI().task_engine exists (real lockview bookkeeping).

What a client is *told* is decoded from the bytes on its transport; the lock
bit is read from dawgie.context.db_lock.
'''

import pickle
import struct

from hypothesis import strategies as st

from .. import core, rig, world

ID = 'C13'
LEVEL = 'fault_enumeration'
RULE = (
    'Generated: words of 3-30 operations over up to 5 client connections: '
    'acq(i) (connect + acquire request), adv(dt) (advance the reactor clock, '
    'dt in 0.25..7 s, firing the 3 s polls and the 1 s stop timers in due '
    'order), rel(i) (release request on i\'s connection, also by waiters), '
    'drop(i) (connection lost). Part words checks the invariants after '
    'every operation and a bounded drain at the end; part crash takes a '
    'generated word and re-runs it once for every (position, client) with a '
    'drop injected there. Non-trivial: at least two clients were connected '
    'at the same time and a disconnect hit a holder or a waiter. Distinct = '
    'SHA-1 of the case JSON.'
    ' acq carries a generated label (unique, shared, empty); part client run'
    's comms.acquire / release or a database copy (Worker._do_copy) against'
    ' the generated contention, the holder letting go at a generated phase '
    'of the poll period; non-trivial there: the lock was held at the reques'
    't, or a waiter queued before the copy is still waiting after it. '
    ' Part client also runs Dataset.load / update / both of the shelve back'
    'end with abort() turning true at a generated poll (the lock must be gi'
    'ven back), and may let the reopening of the database fail once during '
    'the copy. '
)
ASSUMPTIONS = [
    'one acquire request per connection (what comms.acquire does); a slot '
    'reconnects with a new connection after release/disconnect',
    'Twisted transport contract: after the server calls loseConnection the '
    'harness delivers connectionLost and no further data',
    'all protocol callbacks run on the reactor thread (as in production); '
    'the harness serialises them on a task.Clock',
    'bounded liveness: polls every 3 s of harness time; in the final drain '
    'every holder releases or dies and each live waiter must be granted '
    'within one poll period per remaining waiter',
]

NCLIENT = 5
_RIG = [None]


def _rig():
    if _RIG[0] is None:
        _RIG[0] = rig.ShelveRig(real_lock=True)
    return _RIG[0]


def _frame(obj):
    b = pickle.dumps(obj, pickle.HIGHEST_PROTOCOL)
    return struct.pack('>I', len(b)) + b


class Client:
    def __init__(self, idx, gen, clock):
        import dawgie.db.shelve.comms as comms

        self.idx = idx
        self.name = f'c{idx}.{gen}'
        self.w = comms.Worker(world.Address(f'cl{idx}', 5000 + gen))
        self.t = world.Transport()
        self.w.makeConnection(self.t)
        self.w._Worker__looping_call.clock = clock
        self.seen = 0
        self.told = False  # got Mutex.unlock and has not released / died
        self.alive = True
        self.lost_delivered = False
        self.released = False
        self.requested_at = clock.seconds()
        self.granted_at = None

    def flag(self):
        return self.w._Worker__has_lock


class World:
    def __init__(self):
        import dawgie.context
        import dawgie.db.shelve.comms as comms
        import twisted.internet.reactor as reactor
        from twisted.internet import task

        _rig()
        rig.tls_mode(True)  # no legacy handshake wrapper on the protocol
        self.ctx = dawgie.context
        self.comms = comms
        self.reactor = reactor
        self.clock = task.Clock()
        self.real_call_later = reactor.callLater
        reactor.callLater = self.clock.callLater
        self.ctx.db_lock = False
        self.clients = {}  # idx -> Client (current connection of the slot)
        self.all = []
        self.gen = 0
        self.polls = []  # records written by the _do_acquire spy
        self.real_do_acquire = comms.Worker._do_acquire
        world_ = self

        def spy(worker):
            before = world_.ctx.db_lock
            world_.real_do_acquire(worker)
            world_.polls.append((worker, before, world_.ctx.db_lock))

        comms.Worker._do_acquire = spy

    def close(self):
        self.comms.Worker._do_acquire = self.real_do_acquire
        self.reactor.callLater = self.real_call_later
        for c in self.all:
            lc = c.w._Worker__looping_call
            if lc.running:
                lc.stop()
        self.ctx.db_lock = False

    # ---- helpers

    def by_worker(self, w):
        for c in self.all:
            if c.w is w:
                return c
        return None

    def pump(self, out, where):
        '''decode new frames, deliver connectionLost for closed transports'''
        from dawgie.db.shelve.enums import Mutex

        for c in self.all:
            fr = world.frames(c.t.data)
            for m in fr[c.seen:]:
                if isinstance(m, Mutex) and m == Mutex.unlock:
                    others = [o.name for o in self.all if o.told and o is not c]
                    if others:
                        out.fail('exclusion/two-clients-told-they-hold',
                                 f'{where}: {c.name} told it holds while '
                                 f'{others} hold')
                    if not c.alive:
                        out.fail('grant/to-dead-connection',
                                 f'{where}: {c.name}')
                    if not self.ctx.db_lock or not c.flag():
                        out.fail('grant/told-without-holding',
                                 f'{where}: {c.name} told unlock; db_lock='
                                 f'{self.ctx.db_lock} flag={c.flag()}')
                    c.told = True
                    c.granted_at = self.clock.seconds()
                elif isinstance(m, Mutex):
                    pass  # still locked, keep waiting
                elif m is True:
                    if not c.released or not c.was_told_at_release:
                        out.fail('release/true-to-non-holder',
                                 f'{where}: {c.name}')
                    c.told = False
                elif m is False:
                    if c.released and c.was_told_at_release:
                        out.fail('release/false-to-holder', f'{where}: {c.name}')
            c.seen = len(fr)
            if c.t.late:
                out.fail('transport/write-after-close',
                         f'{where}: {c.name} {c.t.late[:20]!r}')
                c.t.late = b''
            if c.t.closed and not c.lost_delivered:
                # the server asked for the close; when the connection is
                # seen lost is the network's business (a holder that released
                # may linger: slow client, half-open socket)
                if (getattr(self, 'lazy', False) and c.released
                        and getattr(c, 'was_told_at_release', False)):
                    if not getattr(c, 'lingering', False):
                        c.lingering = True
                        out.label('released-connection-lingers')
                else:
                    self.drop(c)

    def drop(self, c):
        if c.lost_delivered:
            return
        c.lost_delivered = True
        c.alive = False
        c.t.closed = True
        c.w.connectionLost(None)
        c.told = False

    def invariants(self, out, where):
        flags = [c.name for c in self.all if c.flag()]
        told = [c.name for c in self.all if c.told]
        if len(flags) > 1:
            out.fail('exclusion/two-connections-own-the-lock',
                     f'{where}: {flags}')
        if len(told) > 1:
            out.fail('exclusion/two-clients-told-they-hold', f'{where}: {told}')
        dead = [c.name for c in self.all if c.flag() and not c.alive]
        if dead:
            out.fail('crash/dead-connection-owns-the-lock', f'{where}: {dead}')
        if self.ctx.db_lock and not any(c.alive and c.flag() for c in self.all):
            out.fail('crash/lock-set-but-no-live-owner',
                     f'{where}: db_lock set, owners={flags}, told={told}')
        if not self.ctx.db_lock and told:
            out.fail('exclusion/told-holder-but-lock-free',
                     f'{where}: {told} believe they hold, db_lock is free')
        if told and flags and told != flags:
            out.fail('exclusion/told-differs-from-owner',
                     f'{where}: told={told} owner={flags}')

    def check_polls(self, out, where):
        '''a poll of a live waiter with the lock free must grant'''
        for w, before, after in self.polls:
            c = self.by_worker(w)
            if c is None:
                continue
        self.polls.clear()

    # ---- operations

    def do(self, op, out):
        from dawgie.db.shelve.enums import Func

        kind = op[0]
        where = str(op)
        if kind == 'acq':
            i = op[1] % NCLIENT
            cur = self.clients.get(i)
            if cur is not None and cur.alive:
                return  # one acquire per connection
            self.gen += 1
            c = Client(i, self.gen, self.clock)
            self.clients[i] = c
            self.all.append(c)
            free = not self.ctx.db_lock
            # the label a client gives itself is free text (comms.acquire's
            # argument); generated: unique, shared with another client, empty
            label = [c.name, 'update: T.p.A', '', c.name][
                (op[2] if len(op) > 2 else 0) % 4]
            if label != c.name:
                out.label('label-' + ('empty' if not label else 'shared'))
            data = _frame(self.comms.COMMAND(Func.acquire, None, None, label))
            cut = (op[3] if len(op) > 3 else 0) % len(data)
            if cut:
                # the request arrives in two segments
                out.label('request-in-two-segments')
                c.w.dataReceived(data[:cut])
                c.w.dataReceived(data[cut:])
            else:
                c.w.dataReceived(data)
            self.pump(out, where)
            if free and not c.told:
                out.fail('progress/free-lock-not-granted-at-poll',
                         f'{where}: lock was free at {c.name}\'s first poll')
        elif kind == 'half':
            # a client dies in the middle of sending its request
            self.gen += 1
            c = Client(NCLIENT + 1, self.gen, self.clock)
            self.all.append(c)
            data = _frame(self.comms.COMMAND(Func.acquire, None, None, c.name))
            c.w.dataReceived(data[:1 + op[1] % (len(data) - 1)])
            c.released = True  # it never got to ask
            c.was_told_at_release = False
            self.drop(c)
            self.pump(out, where)
            out.label('client-dies-mid-request')
        elif kind == 'adv':
            target = self.clock.seconds() + op[1]
            while True:
                calls = sorted(self.clock.getDelayedCalls(),
                               key=lambda d: d.getTime())
                if not calls or calls[0].getTime() > target:
                    break
                dt = max(0.0, calls[0].getTime() - self.clock.seconds())
                waiting = [c for c in self.all if c.alive and not c.told
                           and not c.released]
                free = not self.ctx.db_lock
                npolls = len(self.polls)
                try:
                    self.clock.advance(dt)
                except Exception as exc:  # pylint: disable=broad-except
                    # a timed call of the lock protocol raised: the reactor
                    # would log it and carry on, the protocol is broken
                    out.fail('reactor/timed-call-raised',
                             f'{where}: {type(exc).__name__}: {exc}')
                    return
                self.pump(out, where)
                polled = [self.by_worker(p[0]) for p in self.polls[npolls:]]
                polled = [c for c in polled if c in waiting]
                if free and polled and not any(c.told for c in self.all):
                    out.fail('progress/free-lock-not-granted-at-poll',
                             f'{where}: lock free, {[c.name for c in polled]}'
                             ' polled, nobody was granted')
                self.invariants(out, where)
                if out.failures:
                    return
            self.clock.advance(max(0.0, target - self.clock.seconds()))
            self.pump(out, where)
        elif kind == 'rel':
            c = self.clients.get(op[1] % NCLIENT)
            if c is None or not c.alive or c.released:
                return
            c.released = True
            c.was_told_at_release = c.told
            c.w.dataReceived(
                _frame(self.comms.COMMAND(Func.release, None, None, None)))
            self.pump(out, where)
            if c.was_told_at_release and self.ctx.db_lock:
                out.fail('release/lock-not-freed', f'{where}: {c.name}')
            if not c.was_told_at_release:
                out.label('release-by-waiter')
        elif kind == 'lazy':
            self.lazy = True
        elif kind == 'drop':
            c = self.clients.get(op[1] % NCLIENT)
            if c is None or not c.alive:
                return
            if getattr(c, 'lingering', False) and any(
                    o.told for o in self.all if o is not c):
                out.label('lingering-connection-lost-while-another-holds')
            if c.told:
                out.label('disconnect-hits-holder')
                if (c.granted_at is not None
                        and self.clock.seconds() - c.granted_at < 1.0):
                    out.label('holder-dies-within-1s-of-grant')
            elif not c.released:
                out.label('disconnect-hits-waiter')
            held = c.told
            self.drop(c)
            self.pump(out, where)
            if held and self.ctx.db_lock:
                out.fail('crash/holder-death-does-not-free-lock',
                         f'{where}: {c.name} held the lock and dropped')
        self.invariants(out, where)

    def drain(self, out):
        '''holders release or die in turn; every live waiter must be granted
        within one poll period per remaining waiter'''
        k = 0
        for c in list(self.all):
            if getattr(c, 'lingering', False) and not c.lost_delivered:
                self.do(['drop', c.idx], out)
                if out.failures:
                    return
        self.lazy = False
        for _round in range(2 * NCLIENT + 4):
            waiters = [c for c in self.all if c.alive and not c.told
                       and not c.released]
            holders = [c for c in self.all if c.told]
            if not waiters and not holders:
                return
            for h in holders:
                k += 1
                self.do(['rel', h.idx] if k % 2 else ['drop', h.idx], out)
            self.do(['adv', 3.0], out)
            if out.failures:
                return
            if waiters and not any(c.told for c in self.all):
                out.fail('progress/waiter-starves',
                         f'lock free for a full poll period, waiters '
                         f'{[c.name for c in waiters]} not granted; db_lock='
                         f'{self.ctx.db_lock}')
                return
        left = [c.name for c in self.all if c.alive and not c.told
                and not c.released]
        if left:
            out.fail('progress/waiter-starves', f'drain did not serve {left}')


def run_word(ops, out, drain=True):
    w = World()
    try:
        peak = 0
        for op in ops:
            w.do(op, out)
            if out.failures:
                return
            peak = max(peak, len([c for c in w.all if c.alive]))
        if peak >= 2:
            out.label('contention')
        if drain:
            w.drain(out)
        if peak >= 2 and any(l.startswith('disconnect-hits')
                             for l in out.labels):
            out.nontrivial = True
    finally:
        w.close()


def exec_word(case):
    out = core.Outcome()
    run_word(case['ops'], out)
    return out


def exec_crash(case):
    '''fault enumeration: a drop of every client after every prefix'''
    out = core.Outcome()
    ops = case['ops']
    slots = sorted({op[1] % NCLIENT for op in ops if op[0] == 'acq'})
    n = 0
    for k in range(len(ops) + 1):
        for i in slots:
            variant = ops[:k] + [['drop', i]] + ops[k:]
            sub = core.Outcome()
            run_word(variant, sub)
            n += 1
            for lab in sub.labels:
                out.label(lab)
            out.nontrivial |= sub.nontrivial
            if sub.failures:
                f = sub.failures[0]
                out.fail(f.bucket, f'drop({i}) injected at {k}: {f.detail}')
                return out
    out.label(f'variants>={min(n // 20 * 20, 100)}')
    return out


class _Starved(Exception):
    pass


def _client_dataset(case, w, out, blocked):
    '''the lock's main customers: Dataset.load() / update() of the shelve
    backend (model.Interface) take the lock through comms.acquire, work, and
    give it back - also when the algorithm asks to abort at any of its
    abort() polls or the call fails otherwise'''
    import dawgie
    import dawgie.db

    from .. import store as storemod

    c = storemod.classes()
    polls = [0]

    class Alg(c['Alg']):
        def abort(self):
            polls[0] += 1
            return polls[0] == case.get('abort_at', 0)

    val = storemod.val_class(0, 0, 0, [1, 0, 0])(['c13', case.get('dsop')])
    alg = Alg('alpha', [1, 0, 0], [c['SV']('s', [1, 0, 0], {'v': val})])
    bot = c['Bot']('tk', 1, 'T1', [alg])
    known = list(w.all)
    op = ['load', 'update', 'update+load'][case.get('dsop', 0) % 3]
    out.label('dataset-' + op)
    try:
        ds = dawgie.db.connect(alg, bot, 'T1')
        for name in op.split('+'):
            getattr(ds, name)()
    except dawgie.AbortAEError:
        out.label('algorithm-aborted-at-poll-'
                  + str(min(case.get('abort_at', 0), 3)))
        out.nontrivial = True
    except _Starved:
        out.fail('progress/client-starves',
                 f'the dataset call still waits for the lock after '
                 f'{blocked[0]} poll periods; db_lock={w.ctx.db_lock}')
        return out
    for cl in [x for x in w.all if x not in known]:
        # connections the dataset call opened for the lock: comms.acquire /
        # release read their frames themselves
        if cl.flag():
            out.fail('client/lock-kept-after-the-dataset-call',
                     f'{op} (abort at poll {case.get("abort_at", 0)}) is '
                     f'over but its connection {cl.name} still owns the '
                     f'lock; db_lock={w.ctx.db_lock}')
        cl.seen = len(world.frames(cl.t.data))
        cl.told = False
        cl.released = True
        cl.was_told_at_release = True
        cl.alive = False
        cl.lost_delivered = True
    if out.failures:
        return out
    w.pump(out, 'dataset call done')
    w.invariants(out, 'after the dataset call')
    w.drain(out)
    return out


def _client_copy(case, w, out, blocked):
    '''a database copy (Func.dbcopy -> Worker._do_copy) competes for the lock
    like any client, closes and reopens the database while it holds it, and
    lets go; whoever was waiting before must still be served afterwards'''
    from dawgie.db.shelve.enums import Method
    from dawgie.db.shelve.state import DBI

    out.label('database-copy')
    cw = w.comms.Worker(world.Address('copier', 5999))
    ct = world.Transport()
    cw.makeConnection(ct)
    waiting = [c for c in w.all if c.alive and not c.told and not c.released]
    known = list(w.all)
    # the staging directory (mkdir through a shell) is not part of the property
    real_staging = w.comms.util.make_staging_dir
    w.comms.util.make_staging_dir = lambda: None
    real_copy = DBI.copy

    def slow_copy(dbi):
        # the copy takes a while: everybody who waits polls meanwhile (the
        # database has just been closed and reopened under the lock)
        out.label('waiters-poll-during-the-copy')
        w.do(['adv', case.get('copy_time', 3.0)], out)
        return real_copy(dbi)

    DBI.copy = slow_copy
    real_open = DBI.open
    failed = [False]
    if case.get('open_fault'):
        # reopening the shelve files fails once (too many open files)
        def flaky_open(dbi):
            if not failed[0] and not dbi.is_open:
                failed[0] = True
                out.label('reopen-fails-once-during-the-copy')
                raise OSError(24, 'Too many open files (injected)')
            return real_open(dbi)

        DBI.open = flaky_open
    try:
        try:
            cw._do_copy([Method.connector, None])
        except OSError:
            # the copy failed loudly; lock and database must be in order
            failed.append('raised')
        except Exception as exc:  # pylint: disable=broad-except
            if not failed[0]:
                raise
            out.fail('copy/fault-handling-raised',
                     f'{type(exc).__name__}: {exc}; db_lock={w.ctx.db_lock} '
                     f'database open={DBI().is_open}')
            DBI.open = real_open
            if not DBI().is_open:
                DBI().open()
            return out
    except _Starved:
        w.comms.util.make_staging_dir = real_staging
        DBI.copy = real_copy
        out.fail('progress/client-starves',
                 f'the copy still waits for the lock after {blocked[0]} poll '
                 f'periods; db_lock={w.ctx.db_lock}')
        return out
    finally:
        w.comms.util.make_staging_dir = real_staging
        DBI.copy = real_copy
        DBI.open = real_open
    got = world.frames(ct.data)
    if 'raised' in failed:
        pass  # no answer is owed for a copy that failed loudly
    elif not got or not isinstance(got[-1], dict):
        out.fail('copy/no-answer', f'{got!r:.200}')
    if not DBI().is_open:
        out.fail('copy/database-left-closed', '')
    for c in [c for c in w.all if c not in known]:
        # the copy's own lock connection: comms.acquire / release read its
        # frames themselves; it has released and closed by now
        if c.flag():
            out.fail('copy/lock-not-released', c.name)
        c.seen = len(world.frames(c.t.data))
        c.told = False
        c.released = True
        c.was_told_at_release = True
        c.alive = False
        c.lost_delivered = True
    w.pump(out, 'copy done')
    w.invariants(out, 'after copy')
    still = [c for c in waiting if c.alive and not c.told and not c.released]
    if still:
        out.label('waiter-spans-the-copy')
        out.nontrivial = True
    w.drain(out)
    return out


def exec_client(case):
    '''the client side: comms.acquire() must block until the server says the
    lock is this client's, comms.release() must free it'''
    import dawgie.security as sec

    out = core.Outcome()
    w = World()
    real_connect = sec.connect
    socks = []
    blocked = [0]

    def connect(_address):
        w.gen += 1
        c = Client(9, w.gen, w.clock)
        w.all.append(c)
        sock = rig.LoopSocket.__new__(rig.LoopSocket)
        sock.proto, sock.transport, sock.rpos, sock.closed = c.w, c.t, 0, False
        sock.client = c
        socks.append(sock)
        return sock

    def pump(sock):
        # the client would block here: let time pass, maybe free the lock
        blocked[0] += 1
        phase = case.get('phase', 0.0)
        if phase:
            w.do(['adv', phase], out)
        if blocked[0] >= case['free_after']:
            # holders (the first one and whoever is granted next) let go,
            # somewhere inside the poll period: who polls next is generated
            for h in [c for c in w.all if c.told]:
                w.do(['rel', h.idx] if case['how'] else ['drop', h.idx], out)
        if blocked[0] > case['free_after'] + NCLIENT + 3:
            raise _Starved()
        w.do(['adv', 3.0 - phase], out)

    sec.connect = connect
    rig.PUMP[0] = pump
    try:
        for op in case['pre']:
            w.do(op, out)
        held_before = any(c.told for c in w.all)
        if held_before:
            out.nontrivial = True
            out.label('acquire-while-held')
        if case.get('copy') == 2:
            return _client_dataset(case, w, out, blocked)
        if case.get('copy'):
            return _client_copy(case, w, out, blocked)
        try:
            s = w.comms.acquire('client')
        except _Starved:
            out.fail('progress/client-starves',
                     f'comms.acquire still blocked after {blocked[0]} poll '
                     'periods although every holder released or died; '
                     f'db_lock={w.ctx.db_lock}')
            return out
        me = s.client
        w.pump(out, 'comms.acquire returned')
        others = [c.name for c in w.all if c.told and c is not me]
        if others or not w.ctx.db_lock or not me.flag():
            out.fail('client/acquire-returned-without-the-lock',
                     f'holders={others} db_lock={w.ctx.db_lock} '
                     f'mine={me.flag()} after {blocked[0]} blocked reads')
        if held_before and blocked[0] < case['free_after']:
            out.fail('client/acquire-returned-while-held',
                     f'returned after {blocked[0]} blocked reads, holder '
                     f'released at {case["free_after"]}')
        w.invariants(out, 'after comms.acquire')
        me.released = True
        me.was_told_at_release = True
        ok = w.comms.release(s)
        if ok is not True or w.ctx.db_lock:
            out.fail('client/release-did-not-free',
                     f'release -> {ok!r}, db_lock={w.ctx.db_lock}')
        me.told = False
        w.pump(out, 'comms.release returned')
        w.invariants(out, 'after comms.release')
    finally:
        rig.PUMP[0] = None
        sec.connect = real_connect
        w.close()
    return out


_small = st.integers(0, NCLIENT - 1)
_op = st.one_of(
    st.tuples(st.just('acq'), _small).map(list),
    st.tuples(st.just('acq'), _small, st.integers(0, 3)).map(list),
    st.tuples(st.just('acq'), _small, st.integers(0, 3),
              st.integers(1, 60)).map(list),
    st.tuples(st.just('half'), st.integers(0, 60)).map(list),
    st.tuples(st.just('adv'), st.sampled_from(
        [0.25, 0.5, 0.9, 1.0, 1.1, 2.0, 3.0, 3.0, 4.0, 7.0])).map(list),
    st.tuples(st.just('adv'), st.sampled_from(
        [0.25, 0.5, 0.9, 1.0, 1.1, 2.0, 3.0, 3.0, 4.0, 7.0])).map(list),
    st.tuples(st.just('rel'), _small).map(list),
    st.tuples(st.just('drop'), _small).map(list),
    st.just(['lazy']),
)
_word = st.fixed_dictionaries({'ops': st.lists(_op, min_size=3, max_size=30)})
_short = st.fixed_dictionaries({'ops': st.lists(_op, min_size=3, max_size=12)})


_acq = st.tuples(st.just('acq'), _small, st.integers(0, 3)).map(list)
_adv = st.tuples(st.just('adv'), st.sampled_from(
    [0.25, 0.5, 0.9, 1.0, 1.1, 2.0])).map(list)
_client = st.fixed_dictionaries({
    # contention first: several clients queue up at generated poll phases
    'pre': st.one_of(
        st.lists(_op, min_size=0, max_size=8),
        st.lists(st.one_of(_acq, _acq, _adv), min_size=2, max_size=7)),
    'free_after': st.integers(1, 4),
    'how': st.integers(0, 1),
    'copy': st.sampled_from([0, 1, 1, 2, 2]),
    'dsop': st.integers(0, 2),
    'open_fault': st.sampled_from([0, 0, 1]),
    'abort_at': st.sampled_from([0, 0, 1, 2, 3]),
    'copy_time': st.sampled_from([0.5, 3.0, 3.0, 6.5]),
    'phase': st.sampled_from([0.0, 0.5, 1.5, 2.75, 2.75, 2.875]),
})


def parts(tier):
    q = tier == 'quick'
    return [
        core.Part('words', exec_word, strategy=_word,
                  cases=4000 if q else 120000, batch=500),
        core.Part('client', exec_client, strategy=_client,
                  cases=2400 if q else 40000, batch=200),
        core.Part('crash', exec_crash, strategy=_short,
                  cases=240 if q else 6000, batch=60),
    ]
