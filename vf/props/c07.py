'''C07 - content-addressed store: novelty signal, single copy, no dangling
reference.

Part history: updates with contents drawn from a small pool (repeats certain)
across targets, algorithms and runs, with removals, the purge tool and
close/reopen; after every operation every stored file is re-hashed with
hashlib and every catalogue entry is resolved.
Part crash: fault enumeration - a generated prefix, then one more update
during which the process "dies" (a BaseException nothing in DAWGIE catches)
at step k, for EVERY instrumented file-system / table / reply step of that
update; then restart (close, open), check, retry the update, check.
'''

import os

from hypothesis import strategies as st

from .. import core, store

ID = 'C07'
LEVEL = 'fault_enumeration'
RULE = (
    'Generated: 1-3 algorithms and a history of 3-20 operations: upd(target, '
    'run, alg, contents from a pool of 2-4 contents so identical content '
    'recurs under different keys), rm, purge (the real '
    'dawgie.db.tools.purge run on the closed store), reopen. Part crash: a '
    'prefix of 0-6 such operations, then one update whose execution is cut '
    'at each of the instrumented steps in turn (stage: mkstemp, pickle.dump, '
    'chmod, md5sum, sha1sum; server: exists, move/unlink before and after, '
    'table write done/reply, reply delivered), each followed by restart, '
    'invariant check, retry. Non-trivial: identical content stored twice '
    'under different keys (history), or a crash at or after the move (crash). '
    'Distinct = SHA-1 of case JSON.'
    ' updf: an update during which the n-th round trip to the database serv'
    'er loses its request or its reply; when it fails loudly it is run agai'
    'n. Crash steps include copies (before / destination half written / aft'
    'er). '
    ' updf kind move: the rename of a staged blob into the store fails once'
    ' with ENOSPC. Payloads go up to about 1.3 MiB. '
)
ASSUMPTIONS = [
    'a crash happens at a step boundary and every completed step is durable '
    '(crashes inside dbm/shelve writes are below the seam)',
    'staging area and store on one file system (shutil.move is a rename)',
    'md5sum/sha1sum binaries replaced by hashlib with the same output format '
    'in 7 of 8 stores (process spawns dominate the cost), real in the rest',
    'purge is run in-process on the closed store (runpy), then the store is '
    'opened again',
    '"in the store before" is read from the directory listing taken just '
    'before the update',
]

TARGETS = store.pools(False)['targets']


@st.composite
def _ops(draw, n, ncontent, lo, hi):
    a = st.integers(0, n - 1)
    t = st.sampled_from(TARGETS[:2])
    run = st.integers(0, 4)
    cidx = st.lists(st.integers(0, ncontent - 1), min_size=1, max_size=3)
    op = st.one_of(
        st.tuples(st.just('upd'), t, run, a, cidx).map(list),
        st.tuples(st.just('upd'), t, run, a, cidx).map(list),
        st.tuples(st.just('upd'), t, run, a, cidx).map(list),
        st.tuples(st.just('upd'), t, run, a, cidx).map(list),
        st.tuples(st.just('rm'), run, t, a, st.integers(0, 1),
                  st.integers(0, 2)).map(list),
        st.just(['purge']),
        st.just(['reopen']),
        st.tuples(st.just('updf'), t, run, a, cidx, st.integers(0, 14),
                  st.sampled_from(['request', 'reply', 'move'])).map(list),
    )
    return draw(st.lists(op, min_size=lo, max_size=hi))


@st.composite
def _history(draw):
    pool = draw(store.alg_pool(False))
    contents = draw(st.lists(
        st.one_of(store.content, store.content, store.content,
                  store.big_content),
        min_size=2, max_size=4, unique_by=core.canon))
    return {'pool': pool, 'contents': contents,
            'ops': draw(_ops(len(pool), len(contents), 3, 20))}


@st.composite
def _crash(draw):
    pool = draw(store.alg_pool(False, max_algs=2))
    contents = draw(st.lists(store.content, min_size=2, max_size=3,
                             unique_by=core.canon))
    n = len(pool)
    return {
        'pool': pool, 'contents': contents,
        'ops': draw(_ops(n, len(contents), 0, 6)),
        'last': ['upd', draw(st.sampled_from(TARGETS[:2])),
                 draw(st.integers(0, 4)), draw(st.integers(0, n - 1)),
                 draw(st.lists(st.integers(0, len(contents) - 1),
                               min_size=1, max_size=3))],
    }


def do_update(s, op, case, out, where, fault=None):
    cont = [case['contents'][c] for c in op[4]]
    seen_before = set(s.blobs)
    stored = {v[1] for v in s.model.values()}
    if fault is not None:
        # one round trip to the database server breaks during this update:
        # the update either fails loudly (the job is then run again, which
        # is judged like any update) or its report is right as it stands
        res, fired = s.update_with_conn_fault(op[1], op[2], op[3], cont,
                                              fault[0], fault[1])
        if fired:
            out.nontrivial = True
            out.label('move-into-the-store-failed-once' if fault[1] == 'move'
                      else f'connection-fault-{fault[1]}-lost')
        if res is None:
            out.label('update-failed-loudly-and-was-run-again')
            return do_update(s, op, case, out, where + ' (run again)')
        reported, before, expect = res
    else:
        reported, before, expect = s.update(op[1], op[2], op[3], cont)
    rep = {name: isnew for name, isnew in reported}
    prime = s.prime()
    batch = set()
    for key, blob, _canon, vn in expect:
        full = '.'.join([str(key[0]), key[1], key[2], key[3], key[5], vn])
        if full not in rep:
            out.fail('novelty/not-reported', f'{where}: {full} missing from '
                     f'new_values {sorted(rep)}')
            continue
        want_new = blob not in before and blob not in batch
        if rep[full] != want_new:
            out.fail(
                'novelty/wrong-signal@' + ('reported-new-but-present'
                                           if rep[full] else
                                           'reported-old-but-absent'),
                f'{where}: {full} -> blob {blob[:12]} reported new='
                f'{rep[full]}, in store before={blob in before}',
            )
        if blob in stored or blob in batch:
            out.nontrivial = True
            out.label('identical-content-under-another-key')
        batch.add(blob)
    names = set(prime.values())
    for _key, blob, _c, _vn in expect:
        if blob not in names:
            out.fail('catalogue/blob-name-is-not-digest',
                     f'{where}: expected a prime entry naming {blob[:16]}')
            break
    del seen_before


def run_ops(s, ops, case, out):
    for op in ops:
        where = str(op)
        kind = op[0]
        if kind == 'upd':
            do_update(s, op, case, out, where)
        elif kind == 'updf':
            do_update(s, op, case, out, where, fault=(op[5], op[6]))
        elif kind == 'rm':
            _, run, t, i, j, k = op
            a = s.pool[i]
            j %= len(a['svs'])
            k %= len(a['svs'][j]['vals'])
            if t in s.targets and any(key[2] == a['task'] for key in s.model):
                s.remove(run, t, i, j, k)
        elif kind == 'purge':
            if s.model:
                s.purge()
                out.label('purge')
        elif kind == 'reopen':
            s.reopen()
        store.check_blobs(s, out, where)
        store.check_model_matches_prime(s, out, where)
        if out.failures:
            return False
    return True


def exec_history(case):
    out = core.Outcome()
    s = store.Store(case['pool'])
    try:
        run_ops(s, case['ops'], case, out)
    finally:
        s.close()
    return out


# ---- crash enumeration

STEPS = ['mkstemp', 'dump:before', 'dump:after', 'chmod', 'md5sum', 'sha1sum',
         'exists', 'move:before', 'move:after', 'reply:before', 'reply:after']


class Injector:
    '''raise SimulatedCrash at the n-th occurrence of a step'''

    def __init__(self):
        import dawgie.db.shelve.comms as comms
        import dawgie.db.util as dbu
        import os as _os
        import pickle as _pickle
        import shutil as _shutil
        import tempfile as _tempfile

        self.dbu, self.comms = dbu, comms
        self.armed = None  # (step, nth)
        self.count = {}
        self.seen = []
        self.saved = (dbu.os, dbu.pickle, dbu.shutil, dbu.tempfile,
                      dbu.subprocess, comms.Worker._send)
        hit = self.hit
        real_sub = dbu.subprocess  # (already the fast stand-in or the module)

        def mkstemp(*a, **k):
            hit('mkstemp')
            return _tempfile.mkstemp(*a, **k)

        def dump(*a, **k):
            hit('dump:before')
            r = _pickle.dump(*a, **k)
            a[1].flush()
            hit('dump:after')
            return r

        def chmod(*a, **k):
            hit('chmod')
            return _os.chmod(*a, **k)

        def check_output(cmd, *a, **k):
            hit(cmd[0])
            return real_sub.check_output(cmd, *a, **k)

        def exists(p):
            hit('exists')
            return _os.path.exists(p)

        def unlink(p):
            hit('move:before')
            r = _os.unlink(p)
            hit('move:after')
            return r

        def move(a, b):
            hit('move:before')
            r = _shutil.move(a, b)
            hit('move:after')
            return r

        def copy_like(real):
            # a copy is not atomic: the process may die with the destination
            # created and only partly written
            def copy(a, b, *args, **kw):
                hit('copy:before')
                with open(a, 'rb') as f:
                    raw = f.read()
                dst = b
                if _os.path.isdir(dst):
                    dst = _os.path.join(dst, _os.path.basename(a))
                with open(dst, 'wb') as f:
                    f.write(raw[: len(raw) // 2])
                hit('copy:mid')
                r = real(a, b, *args, **kw)
                hit('copy:after')
                return r
            return copy

        path = store._Proxy(_os.path, {'exists': exists})
        dbu.os = store._Proxy(_os, {'chmod': chmod, 'unlink': unlink,
                                    'path': path})
        dbu.pickle = store._Proxy(_pickle, {'dump': dump})
        dbu.shutil = store._Proxy(_shutil, {
            'move': move, 'copyfile': copy_like(_shutil.copyfile),
            'copy': copy_like(_shutil.copy),
            'copy2': copy_like(_shutil.copy2)})
        dbu.tempfile = store._Proxy(_tempfile, {'mkstemp': mkstemp})
        dbu.subprocess = store._Proxy(real_sub, {'check_output': check_output})
        real_send = comms.Worker._send
        inj = self

        def _send(worker, response):
            if inj.in_set:
                hit('reply:before')
            r = real_send(worker, response)
            if inj.in_set:
                hit('reply:after')
            return r

        comms.Worker._send = _send
        real_do = comms.Worker.do
        self.real_do = real_do
        self.in_set = False

        def do(worker, request):
            from dawgie.db.shelve.enums import Func

            inj.in_set = request.func == Func.set
            try:
                return real_do(worker, request)
            finally:
                inj.in_set = False

        comms.Worker.do = do

    def hit(self, step):
        self.count[step] = self.count.get(step, 0) + 1
        self.seen.append(step)
        if self.armed == (step, self.count[step]):
            self.armed = None
            raise store.SimulatedCrash(f'{step}#{self.count[step]}')

    def reset(self):
        self.count = {}
        self.seen = []

    def close(self):
        d = self.dbu
        (d.os, d.pickle, d.shutil, d.tempfile, d.subprocess,
         self.comms.Worker._send) = self.saved
        self.comms.Worker.do = self.real_do


def exec_crash(case):
    '''for every step occurrence of the last update: prefix, crash there,
    restart, check, retry, check'''
    out = core.Outcome()
    # dry run to learn the step sequence of the last update
    s = store.Store(case['pool'])
    real_bin = store._N[0] % 8 == 0
    inj = Injector()
    try:
        if not run_ops(s, case['ops'], case, out):
            return out
        inj.reset()
        do_update(s, case['last'], case, out, 'dry run')
        steps = list(inj.seen)
    finally:
        inj.close()
        s.close()
    if out.failures:
        return out
    occurrences = []
    cnt = {}
    for st_ in steps:
        cnt[st_] = cnt.get(st_, 0) + 1
        occurrences.append((st_, cnt[st_]))
    out.label(f'steps>={len(occurrences) // 10 * 10}')
    for step, nth in occurrences:
        s = store.Store(case['pool'])
        store.use_real_digest_binaries(real_bin)
        inj = Injector()
        where = f'crash at {step}#{nth}'
        try:
            if not run_ops(s, case['ops'], case, core.Outcome()):
                raise core.HarnessError('prefix failed on replay')
            model_before = dict(s.model)
            inj.reset()
            inj.armed = (step, nth)
            crashed = False
            try:
                sub = core.Outcome()
                do_update(s, case['last'], case, sub, where)
            except store.SimulatedCrash:
                crashed = True
            if not crashed:
                raise core.HarnessError(f'{where}: step never reached')
            if step.startswith(('move:after', 'reply')) or step == 'move:before':
                out.nontrivial = True
                out.label('crash-at-or-after-move')
            # the update did not return: the harness model keeps what the
            # catalogue really recorded (entries written before the crash)
            s.model = model_before
            # restart
            from dawgie.db.shelve.state import DBI

            DBI()._DBI__reopened = False
            s.reopen()
            got = {}
            prime = s.prime()
            store.check_blobs(s, out, where + ' + restart')
            if out.failures:
                return out
            # entries the interrupted update managed to record are fine as
            # long as they resolve; adopt them into the model by retrying
            inj.armed = None
            sub = core.Outcome()
            # retry the same update after the restart
            s.model = {}
            _adopt_prime(s)
            do_update(s, case['last'], case, sub, where + ' + retry')
            for f in sub.failures:
                out.fail(f.bucket + '@after-crash', f'{where}: {f.detail}')
            store.check_blobs(s, out, where + ' + retry')
            if out.failures:
                return out
            del got, prime
        finally:
            inj.close()
            s.close()
    return out


def _adopt_prime(s):
    '''rebuild the harness model from the catalogue (after a crash the harness
    cannot know which entries the interrupted update recorded)'''
    from dawgie.db.shelve import util

    _t, ind = s.tables()
    for key, name in s.prime().items():
        run, tid, tsk, aid, sid, vid = key
        a = util.dissect(ind.alg[aid])
        sv = util.dissect(ind.state[sid])
        v = util.dissect(ind.value[vid])
        ident = (run, util.dissect(ind.target[tid])[1],
                 util.dissect(ind.task[tsk])[1], a[1],
                 tuple(a[2]._get_ver()), sv[1], tuple(sv[2]._get_ver()),
                 v[1], tuple(v[2]._get_ver()))
        s.model[ident] = ('?', name)
    s.blobs = set(os.listdir(s.rig.db_dir('dbs')))


def parts(tier):
    q = tier == 'quick'
    return [
        core.Part('history', exec_history, strategy=_history(),
                  cases=480 if q else 12000, batch=60),
        core.Part('crash', exec_crash, strategy=_crash(),
                  cases=48 if q else 1600, batch=8),
    ]
