'''C06 - stored values come back intact, and only to their own author,
version, target.

State machine on the shelve rig (vf/store.py): updates, loads, version bumps,
removals, target additions, close/reopen.  Oracle: a dictionary keyed by the
full versioned identity + target + run, kept by the harness.
'''

from hypothesis import strategies as st

from .. import core, store

ID = 'C06'
LEVEL = 'exploration'
RULE = (
    'Generated: 1-3 algorithms (1-2 state vectors x 1-3 values, prefix-free '
    'names, versions from a small grid) and a history of 4-30 operations: '
    'upd(target, run 0..6, alg, contents) with contents drawn from a pool of '
    'generated picklable trees (ints, floats, strings, None, lists, dicts), '
    'load(target, run, alg), bump(alg | state vector | value version), '
    'rm(run, target, alg, sv, value), tgt, reopen. After every load each '
    'value is compared with the model: the entry of the requested run, else '
    'that of the highest run of the same identity and target, else the '
    'untouched prototype object. Non-trivial: a load after a version bump '
    'of an element that has stored data, or a load for an absent run with '
    '>= 2 stored runs, or a load after a reopen. Distinct = SHA-1 of case '
    'JSON.'
    ' Part held: two datasets are connected once and then loaded repeatedly '
    '(hload) while other datasets store for the same target and algorithm ('
    'hupd); non-trivial there: a kept dataset loads again after such a stor'
    'e. '
    ' Value classes declare their version (one class per value identity, op'
    'tionally derived from the class of the first value of the state vector'
    '); contents include payloads of about 90 KiB that differ only in their'
    ' last bytes. '
    ' updwf: an update during which one catalogue write fails once and the '
    'job is run again; rmshared: an entry whose content another entry share'
    's is removed and the other one is loaded. '
)
ASSUMPTIONS = [
    'shelve backend only; client side through the real Connector and an '
    'in-process comms.Worker; lock granted immediately (lock is C13)',
    'names are prefix-free (exact addressing is C08)',
    'contents compared by value (canonical JSON); NaN excluded',
    'the version recorded with a loaded value is read from the pickled '
    '_version_seal_ (Value.__setstate__ resets _version_ to the class default)',
    'metric state vector (__metric__) values are not compared',
]

TARGETS = store.pools(False)['targets']


@st.composite
def _case(draw, held=False):
    pool = draw(store.alg_pool(False))
    contents = draw(st.lists(
        st.one_of(store.content, store.content, store.content,
                  store.big_content), min_size=2, max_size=5))
    n = len(pool)
    a = st.integers(0, n - 1)
    t = st.sampled_from(TARGETS)
    run = st.sampled_from([0, 1, 2, 3, 5, 9])
    cidx = st.lists(st.integers(0, len(contents) - 1), min_size=1, max_size=6)
    op = st.one_of(
        st.tuples(st.just('upd'), t, run, a, cidx).map(list),
        st.tuples(st.just('upd'), t, run, a, cidx).map(list),
        st.tuples(st.just('upd'), t, run, a, cidx).map(list),
        st.tuples(st.just('load'), t, run, a).map(list),
        st.tuples(st.just('load'), t, run, a).map(list),
        st.tuples(st.just('load'), t, st.integers(0, 9), a).map(list),
        st.tuples(st.just('load'), t, st.integers(0, 9), a).map(list),
        st.tuples(st.just('bump'), a, st.sampled_from(['a', 's', 'v']),
                  st.integers(0, 1), st.integers(0, 2),
                  st.integers(0, 2)).map(list),
        st.tuples(st.just('rm'), run, t, a, st.integers(0, 1),
                  st.integers(0, 2)).map(list),
        st.tuples(st.just('tgt'), t).map(list),
        st.just(['reopen']),
        st.tuples(st.just('rmshared'), st.integers(0, 7)).map(list),
        st.tuples(st.just('updwf'), t, run, a, cidx,
                  st.integers(0, 6)).map(list),
        # a dataset that is kept and loaded again later (slot 0..1)
        st.tuples(st.just('hold'), t, run, a, st.integers(0, 1)).map(list),
        st.tuples(st.just('hload'), st.integers(0, 1)).map(list),
        st.tuples(st.just('hload'), st.integers(0, 1)).map(list),
        # somebody else stores for the target / algorithm of a kept dataset
        st.tuples(st.just('hupd'), st.integers(0, 1), run, cidx).map(list),
        st.tuples(st.just('hupd'), st.integers(0, 1), run, cidx).map(list),
    )
    if held:
        # sessions: a dataset is connected once and loaded several times
        # while other datasets store for the same target and algorithm
        slot = st.integers(0, 1)
        op = st.one_of(
            st.tuples(st.just('hold'), t, run, a, slot).map(list),
            st.tuples(st.just('hload'), slot).map(list),
            st.tuples(st.just('hload'), slot).map(list),
            st.tuples(st.just('hload'), slot).map(list),
            st.tuples(st.just('hupd'), slot, run, cidx).map(list),
            st.tuples(st.just('hupd'), slot, run, cidx).map(list),
            st.tuples(st.just('hupd'), slot, run, cidx).map(list),
            st.tuples(st.just('upd'), t, run, a, cidx).map(list),
            st.tuples(st.just('load'), t, run, a).map(list),
            st.tuples(st.just('bump'), a, st.sampled_from(['a', 's', 'v']),
                      st.integers(0, 1), st.integers(0, 2),
                      st.integers(0, 2)).map(list),
        )
        first = [draw(st.tuples(st.just('hold'), t, run, a,
                                st.just(0)).map(list)),
                 draw(st.tuples(st.just('hold'), t, run, a,
                                st.just(1)).map(list))]
        return {'pool': pool, 'contents': contents,
                'ops': first + draw(st.lists(op, min_size=4, max_size=28))}
    return {'pool': pool, 'contents': contents,
            'ops': draw(st.lists(op, min_size=4, max_size=30))}


def bump(s, op):
    _, i, level, j, k, part = op
    a = s.pool[i]
    j %= len(a['svs'])
    k %= len(a['svs'][j]['vals'])
    key = {'a': ('a', i), 's': ('s', i, j), 'v': ('v', i, j, k)}[level]
    s.ver[key][part] += 1
    for q in range(part + 1, 3):
        s.ver[key][q] = 0
    return key


def execute(case):
    out = core.Outcome()
    s = store.Store(case['pool'])
    bumped = set()
    reopened = False
    held = {}
    try:
        todo = list(case['ops'])
        while todo:
            op = todo.pop(0)
            kind = op[0]
            where = str(op)
            if kind == 'rmshared':
                # two entries hold identical content (one blob): one of them
                # is removed, the other must still come back intact
                groups = {}
                for key, (_c, blob) in s.model.items():
                    groups.setdefault(blob, []).append(key)
                pairs = []
                for g in groups.values():
                    for k1 in sorted(g):
                        for k2 in sorted(g):
                            if k1[:2] != k2[:2]:
                                pairs.append((k1, k2))
                cur = {s.ident(i, j, k): (i, j, k)
                       for i, a in enumerate(s.pool)
                       for j, sv in enumerate(a['svs'])
                       for k, _v in enumerate(sv['vals'])}
                pairs = [p for p in pairs if p[1][2:] in cur
                         and any(c[0] == p[0][2] and c[1] == p[0][3]
                                 and c[3] == p[0][5] and c[5] == p[0][7]
                                 for c in cur)]
                if not pairs:
                    continue
                k1, k2 = pairs[op[1] % len(pairs)]
                i1, j1, v1 = next(v for c, v in cur.items()
                                  if (c[0], c[1], c[3], c[5]) == (
                                      k1[2], k1[3], k1[5], k1[7]))
                out.nontrivial = True
                out.label('entry-removed-whose-content-another-entry-shares')
                todo[:0] = [['rm', k1[0], k1[1], i1, j1, v1],
                            ['load', k2[1], k2[0], cur[k2[2:]][0]]]
                continue
            if kind == 'hupd':
                h = held.get(op[1])
                if h is None:
                    continue
                kind = 'upd'
                op = ['upd', h['t'], op[2], h['i'], op[3]]
            if kind == 'updwf':
                # an update during which one catalogue write fails (disk
                # full for a moment); the worker's job is run again
                cont = [case['contents'][c] for c in op[4]]
                with store.catalogue_write_fault(op[5]) as hit:
                    try:
                        s.update(op[1], op[2], op[3], cont)
                    except OSError:
                        pass
                if hit[0]:
                    out.label('catalogue-write-failed-once')
                    s.update(op[1], op[2], op[3], cont)
                kind = 'noop'
            if kind == 'upd':
                cont = [case['contents'][c] for c in op[4]]
                s.update(op[1], op[2], op[3], cont)
                for h in held.values():
                    if (h['t'], h['i']) == (op[1], op[3]):
                        h['stale'] = True
            elif kind == 'hold':
                held[op[4]] = s.hold(op[1], op[2], op[3])
            elif kind in ('load', 'hload'):
                h = None
                if kind == 'hload':
                    h = held.get(op[1])
                    if h is None or h['reopens'] != s.reopens:
                        continue  # nothing held (a reopen ends the session)
                    t, run, i = h['t'], h['run'], h['i']
                    if h.get('loaded') and h.get('stale'):
                        out.nontrivial = True
                        out.label('held-dataset-loads-again-after-a-store')
                    h['loaded'], h['stale'] = True, False
                    where = f'{where} (held {t} run {run} alg {i})'
                else:
                    t, run, i = op[1], op[2], op[3]
                got = s.load(t, run, i, held=h)
                hver = h['ver'] if h else None
                for (j, k), g in sorted(got.items()):
                    want = s.expect_load(t, run, i, j, k, ver=hver)
                    if hver is not None:
                        now, s.ver = s.ver, hver
                        ident = s.ident(i, j, k)
                        s.ver = now
                    else:
                        ident = s.ident(i, j, k)
                    stored_runs = sorted(
                        key[0] for key in s.model
                        if key[1] == t and key[2:] == ident)
                    if run not in stored_runs and len(stored_runs) >= 2:
                        out.nontrivial = True
                        out.label('load-absent-run-with-fallback')
                    same_name_other_ver = any(
                        key[1] == t and key[2:] != ident
                        and (key[2], key[3], key[5], key[7]) == (
                            ident[0], ident[1], ident[3], ident[5])
                        for key in s.model)
                    if same_name_other_ver:
                        out.nontrivial = True
                        out.label('load-with-other-version-stored')
                    if reopened and stored_runs:
                        out.nontrivial = True
                        out.label('load-after-reopen')
                    if g[:2] != want[:2]:
                        site = ('untouched-expected' if want[0] == 'untouched'
                                else 'nothing-loaded' if g[0] == 'untouched'
                                else 'wrong-content')
                        out.fail(
                            f'load/differs-from-model@{site}',
                            f'{where}: value {ident} on {t} run {run}: got '
                            f'{g[:2]} want {want[:2]} (stored runs '
                            f'{stored_runs})',
                        )
                    elif g[0] == 'loaded' and tuple(g[2]) != tuple(want[2]):
                        out.fail('load/version-seal-differs',
                                 f'{where}: {ident}: seal {g[2]}')
                if out.failures:
                    break
            elif kind == 'bump':
                bumped.add(bump(s, op))
                # a version changes with the code: no dataset of the old
                # process survives that
                for slot, h in list(held.items()):
                    held[slot] = s.hold(h['t'], h['run'], h['i'])
            elif kind == 'rm':
                _, run, t, i, j, k = op
                a = s.pool[i]
                j %= len(a['svs'])
                k %= len(a['svs'][j]['vals'])
                if t in s.targets and any(
                        key[2] == a['task'] for key in s.model):
                    s.remove(run, t, i, j, k)
                    out.label('remove')
            elif kind == 'tgt':
                s.add_target(op[1])
            elif kind == 'reopen':
                s.reopen()
                reopened = True
            store.check_model_matches_prime(s, out, where)
            if out.failures:
                break
    finally:
        s.close()
    return out


def parts(tier):
    q = tier == 'quick'
    return [
        core.Part('history', execute, strategy=_case(),
                  cases=1200 if q else 30000, batch=60),
        core.Part('held', execute, strategy=_case(held=True),
                  cases=600 if q else 15000, batch=60),
    ]
