'''C04 - idle means idle; runnable work is released; the pipeline quiesces.

"Eventually" is decided in bounded form in a schedule the harness owns:
workers always answer, so the drain loop (tick; answer everything) must reach
quiescence within B = 2*(#algorithms*(#targets+1))+5 rounds.
'''

from .. import core, sim

ID = 'C04'
LEVEL = 'exploration'
RULE = (
    'Generated: engine spec (analyses downstream of tasks frequent) x target '
    'list incl. the empty list x history of 4-40 operations (requests, '
    'ticks, joins, replies in any order with success/failure/invalid, '
    'failures anywhere including last), followed by a drain. Non-trivial: '
    'the history contains a non-success reply while some dependent has the '
    'target pending, or starts from an empty target list, or has an analysis '
    'below a task with work requested. Distinct = SHA-1 of case JSON.'
    ' Part faults also lets db.targets() fail once while the farm handles a'
    ' reply; algorithms may read back their own output. '
    ' The faults part may also let the journal write fail once while a repl'
    'y is handled. '
)
ASSUMPTIONS = [
    'liveness is bounded: workers always answer; drain bound '
    'B = 2*(#algorithms*(#targets+1))+5 dispatch rounds',
    'pipeline active and not paused (life-cycle is C10-C12)',
    'stub database backend; promotion disabled (default)',
    'replies in the drain report no new values (so feedback loops converge)',
]


def idle_views(s, out, where):
    if not s.idle():
        return
    q = [j.tag for j in s.sched.que]
    if q:
        out.fail(
            'idle/queue-not-empty',
            f'{where}: nothing pending or in flight but schedule.que={q}',
        )
    if s.sched.view_todo():
        out.fail('idle/view_todo-not-empty', f'{where}: {s.sched.view_todo()}')
    if s.sched.view_doing():
        out.fail('idle/view_doing-not-empty', f'{where}: {s.sched.view_doing()}')
    if s.farm.crew()['busy']:
        out.fail('idle/crew-busy', f'{where}: {s.farm.crew()["busy"]}')


def check_event(s, ev, out):
    op = ev['op'][0]
    idle_views(s, out, f'after {ev["op"]}')
    if ev.get('fault'):
        out.label('db-fault-while-handling-a-reply'
                  if any(e[1] == 'escaped dataReceived' for e in ev['errors'])
                  else 'db-fault-during-dispatch')
    if (op == 'tick' and s.fsm.active and not s.sched.is_paused()
            and not ev.get('fault')):
        released = {(u.jobid, u.target) for u in ev['released']}
        for tag, tgt in ev['releasable_before']:
            if tgt in ev['exec_before'].get(tag, ()):
                continue  # the same unit is still executing (C03)
            if (tag, tgt) not in released:
                anc = sorted(s.ref.ancestors[tag])
                out.fail(
                    'progress/runnable-not-released',
                    f'{tag}[{tgt}] pending, upstream {anc} idle for it, but '
                    f'dispatch released {sorted(released)}; '
                    f'que={[j.tag for j in s.sched.que]}',
                )
                break
    if op == 'rep' and 'unit' in ev and ev['outcome'] != 'success':
        u = ev['unit']
        for d in s.ref.descendants[u.jobid]:
            if u.target in ev['before'][d][0]:
                out.nontrivial = True
                out.label('failure-with-dependent-pending')
    if op in ('req', 'rereq', 'reqall', 'requp') and any(
        s.ref.is_analysis(t) and s.ref.ancestors[t] for t in ev.get('names', ())
    ):
        out.nontrivial = True
        out.label('analysis-below-something-requested')
    if ev['errors']:
        for e in ev['errors']:
            if e[0] == 'exception':
                out.fail('farm/swallowed-exception', f'{e} op={ev["op"]}')


def at_end(s, out):
    fails = [0]

    def outcome(n):
        # deterministic mix: every third answer in the drain is a failure
        fails[0] += 1
        return 1 if fails[0] % 3 == 0 else 0

    rounds, done, events = s.drain(outcome_for=outcome)
    for ev in events:
        check_event(s, ev, out)
        if out.failures:
            return
    if not done:
        pend = {t: sorted(n.get('todo')) for t, n in s.nodes.items()
                if n.get('todo')}
        out.fail(
            'drain/does-not-quiesce',
            f'after {rounds} rounds pending={pend} inflight={s.inflight()} '
            f'que={[j.tag for j in s.sched.que]}',
        )
    else:
        idle_views(s, out, 'after drain')


class _Waiter:
    '''what the waiters of pl.state.FSM need from their FSM'''

    def __init__(self, s):
        self.s = s

    def is_pipeline_active(self):
        return self.s.fsm.active

    def waiting_on_crew(self):
        return True

    def waiting_on_doing(self):
        return True

    def waiting_on_todo(self):
        return True


def exec_waiters(case):
    '''the real poll loops of the "queue empty" / "nothing executing" /
    "crew idle" waiters (pl.state.FSM.is_todo_done / is_doing_done /
    is_crew_done), each on its own single-stepped thread started at a
    generated point of the history, must return once the pipeline has
    quiesced'''
    import dawgie.pl.state as state

    from .. import fsmrig

    started = []
    real_time = state.time
    state.time = fsmrig._Time(real_time)

    def on_event(s, ev, out):
        check_event(s, ev, out)
        n = len(s.log)
        for at, kind in case['waiters']:
            if at == n:
                fn = {'todo': state.FSM.is_todo_done,
                      'doing': state.FSM.is_doing_done,
                      'crew': state.FSM.is_crew_done}[kind]
                step = fsmrig.Step(fn, (_Waiter(s),), {}, None)
                step.kind = kind
                step.thread = fsmrig.PollerThread(step)
                step.thread.wait()
                started.append(step)
                if s.sched.que:
                    out.nontrivial = True
                    out.label('waiter-started-while-work-queued')
        for step in started:
            step.thread.step_once()

    def end(s, out):
        at_end(s, out)
        if out.failures or not s.idle():
            return
        for step in started:
            for _ in range(3):
                if step.thread.step_once():
                    break
            if not step.thread.done.is_set():
                out.fail(
                    f'waiter/never-satisfied@{step.kind}',
                    f'pipeline quiescent (queue {[j.tag for j in s.sched.que]}'
                    f', busy {list(s.farm._busy)}, doing '
                    f'{s.sched.view_doing()}) but the "{step.kind}" waiter '
                    'started earlier is still polling',
                )
            elif step.thread.exc is not None:
                out.fail(f'waiter/raised@{step.kind}', repr(step.thread.exc))

    try:
        out = sim.run_history(case, on_event, end, pid=ID)
    finally:
        for step in started:
            step.thread.stop()
        state.time = real_time
    return out


def execute(case):
    out = sim.run_history(case, check_event, at_end, pid=ID)
    if not case['targets']:
        out.nontrivial = True
        out.label('empty-target-list')
    return out


def _waiter_cases():
    from hypothesis import strategies as st

    @st.composite
    def build(draw):
        case = draw(sim.histories(
            weights={'req': 3},
            spec_kw={'kinds': ('task', 'task', 'analysis', 'regress')},
            empty_targets=False))
        case['waiters'] = draw(st.lists(
            st.tuples(st.integers(1, 12),
                      st.sampled_from(['todo', 'todo', 'doing', 'crew'])),
            min_size=1, max_size=3))
        return case

    return build()


def parts(tier):
    q = tier == 'quick'
    return [
        core.Part(
            'history', execute,
            strategy=sim.histories(
                weights={'req': 3},
                spec_kw={'kinds': ('task', 'task', 'analysis', 'analysis',
                                   'regress'), 'selfref': True},
            ),
            cases=1600 if q else 50000, batch=200,
        ),
        core.Part(
            'where', execute,
            strategy=sim.histories(
                weights={'req': 3},
                spec_kw={'kinds': ('task', 'task', 'analysis', 'regress'),
                         'where': True},
                empty_targets=False,
            ),
            cases=400 if q else 12500, batch=200,
        ),
        core.Part(
            'faults', execute,
            strategy=sim.histories(
                weights={'req': 3, 'dbfault': 3, 'tgtfault': 3,
                         'chronfault': 2},
                spec_kw={'kinds': ('task', 'task', 'analysis', 'regress')},
            ),
            cases=400 if q else 12500, batch=200,
        ),
        core.Part(
            'waiters', exec_waiters,
            strategy=_waiter_cases(),
            cases=400 if q else 12500, batch=200,
        ),
        core.Part(
            'timers', execute,
            strategy=sim.histories(
                weights={'req': 3, 'timer': 8},
                spec_kw={'kinds': ('task', 'task', 'analysis', 'analysis',
                                   'regress'), 'events': True},
            ),
            cases=400 if q else 12500, batch=200,
        ),
    ]
