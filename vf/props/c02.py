'''C02 - reprocessing after a change is complete and minimal.

Part law (this file, fast, stub store): propagation law over the history log.
Part e2e (real shelve store, executable algorithms): see exec_e2e.
'''

from .. import core, sim

ID = 'C02'
LEVEL = 'exploration'
RULE = (
    'Part law: generated engine (value-level input declarations frequent) x '
    'targets x history; success replies carry a generated subset of the '
    'unit\'s values flagged new. Complete: right after a success report every '
    'direct dependent (and feedback consumer) whose declared inputs meet the '
    'new set has the affected target(s) pending, and at quiescence of a '
    'failure-free history nothing justified is left unreleased. Minimal: '
    'every release is preceded, since the previous release of the same unit, '
    'by a justification (request, version build, fed-back value, parent '
    'report meeting its declared inputs). Non-trivial: some reply reports a '
    'strict non-empty subset of its values new while the unit has a '
    'dependent that reads none of them. Distinct = SHA-1 of case JSON.'
)
ASSUMPTIONS = [
    'minimality and completeness are judged per (algorithm, target) unit',
    'failures withdraw dependents (C05), so end-of-history completeness is '
    'asserted for failure-free histories only',
    'declared inputs come from the reference graph of the spec',
    'part law uses a stub database; promotion disabled (default)',
]


def check_event(s, ev, out):
    op = ev['op'][0]
    if op == 'tick':
        for u in ev.get('released', ()):
            if not s.flags.get(u.key):
                out.fail(
                    'minimal/unjustified-release',
                    f'{u} released at step {ev["step"]} without a request, '
                    f'version change or new input since its last release',
                )
            s.flags[u.key] = False
    if op == 'rep' and 'unit' in ev:
        u = ev['unit']
        if ev['outcome'] == 'success':
            want = s.expect_after_success(u, ev['newset'])
            for d, t in want:
                if t not in ev['after'][d][0]:
                    site = ''
                    if not (s.ref.inputs[d] & ev['newset']):
                        vs = [v for v in ev['newset']
                              if d in s.ref.feedbacks.get(v, ())]
                        if vs and all(
                            len(s.ref.feedbacks[v]) > 1 for v in vs
                        ):
                            site = '@second-feedback-consumer-of-one-value'
                    out.fail(
                        'complete/dependent-not-scheduled' + site,
                        f'{u} reported new {sorted(ev["newset"])}; {d} '
                        f'declares one of them but {t} is not pending '
                        f'(todo={sorted(ev["after"][d][0])})',
                    )
            # nothing else may be scheduled by this report
            wanted = {}
            for d, t in want:
                wanted.setdefault(d, set()).add(t)
            for n in ev['before']:
                grew = ev['after'][n][0] - ev['before'][n][0]
                extra = grew - wanted.get(n, set())
                if extra:
                    out.fail(
                        'minimal/scheduled-without-new-input',
                        f'{u} reported new {sorted(ev["newset"])}; {n} got '
                        f'{sorted(extra)} pending but reads none of them',
                    )
            allv = set(s.ref.values[u.jobid])
            if ev['newset'] and ev['newset'] < allv:
                kids = s.ref.children[u.jobid]
                if any(not (s.ref.inputs[k] & ev['newset']) for k in kids):
                    out.nontrivial = True
                    out.label('partial-new-and-unaffected-dependent')
            if ev['newset']:
                out.label('some-new')
            if any(v in s.ref.feedbacks for v in ev['newset']):
                out.label('feedback-value-new')
        else:
            s.had_failure = True
    for e in ev['errors']:
        if e[0] == 'exception':
            out.fail('farm/swallowed-exception', f'{e} op={ev["op"]}')


def at_end(s, out):
    if getattr(s, 'had_failure', False):
        return
    rounds, done, events = s.drain()
    for ev in events:
        check_event(s, ev, out)
        if out.failures:
            return
    if done:
        left = sorted(k for k, v in s.flags.items() if v)
        # a flag for a target unknown to an algorithm family cannot be met
        if left:
            out.fail(
                'complete/justified-unit-never-released',
                f'at quiescence these units were never run: {left}',
            )


def execute(case):
    return sim.run_history(case, check_event, at_end, pid=ID)


def parts(tier):
    q = tier == 'quick'
    return [
        core.Part(
            'law', execute,
            strategy=sim.histories(
                weights={},
                spec_kw={'min_algs': 2, 'levels': ('alg', 'sv', 'val', 'val')},
            ),
            cases=1600 if q else 40000, batch=200,
        ),
    ]
