'''C02 - reprocessing after a change is complete and minimal.

Part law (this file, fast, stub store): propagation law over the history log.
Part e2e (real shelve store, executable algorithms): see exec_e2e.
'''

from .. import core, sim

ID = 'C02'
LEVEL = 'exploration'
RULE = (
    'Part law: generated engine (value-level input declarations frequent) x '
    'targets x history; success replies carry a generated subset of the '
    'unit\'s values flagged new. Complete: right after a success report every '
    'direct dependent (and feedback consumer) whose declared inputs meet the '
    'new set has the affected target(s) pending, and at quiescence of a '
    'failure-free history nothing justified is left unreleased. Minimal: '
    'every release is preceded, since the previous release of the same unit, '
    'by a justification (request, version build, fed-back value, parent '
    'report meeting its declared inputs). Non-trivial: some reply reports a '
    'strict non-empty subset of its values new while the unit has a '
    'dependent that reads none of them. Distinct = SHA-1 of case JSON.'
    ' Part overtake: a scripted skeleton along a generated dependency edge '
    '(the dependent is released, its upstream runs again and reports new va'
    'lues while it is in flight, then its first result arrives with new val'
    'ues) with generated operations in between. Algorithms may read back th'
    'eir own output. '
)
ASSUMPTIONS = [
    'minimality and completeness are judged per (algorithm, target) unit',
    'failures withdraw dependents (C05), so end-of-history completeness is '
    'asserted for failure-free histories only',
    'declared inputs come from the reference graph of the spec',
    'part law uses a stub database; promotion disabled (default)',
]


def propagation_gaps(s, ev):
    '''(dependent, target, site) not pending although the success report of
    ev named one of their declared inputs as new'''
    u = ev['unit']
    gaps = []
    for d, t in s.expect_after_success(u, ev['newset']):
        if t not in ev['after'][d][0]:
            site = ''
            if not (s.ref.inputs[d] & ev['newset']):
                vs = [v for v in ev['newset']
                      if d in s.ref.feedbacks.get(v, ())]
                if vs and all(len(s.ref.feedbacks[v]) > 1 for v in vs):
                    site = '@second-feedback-consumer-of-one-value'
            gaps.append((d, t, site))
    return gaps


def check_event(s, ev, out):
    op = ev['op'][0]
    if op == 'rep' and ev.get('unit') is not None:
        u = ev['unit']
        if (ev.get('outcome') == 'success' and ev.get('newset')
                and u.target in ev['before'][u.jobid][0]):
            out.label('new-values-from-a-unit-queued-again-meanwhile')
    if op == 'tick':
        # units a failed dispatch (injected database fault) took from the
        # scheduler but could not release yet: for the scheduler they are
        # released now; the farm creates their messages at its next tick
        held = s.__dict__.setdefault('_c02_limbo', set())
        for key in s.limbo() - held:
            if not s.flags.get(key):
                out.fail(
                    'minimal/unjustified-release',
                    f'{key} taken for release at step {ev["step"]} without a '
                    'request, version change or new input since its last '
                    'release',
                )
            s.flags[key] = False
            held.add(key)
        for u in ev.get('released', ()):
            if u.key in held:
                held.discard(u.key)
                continue
            if not s.flags.get(u.key):
                out.fail(
                    'minimal/unjustified-release',
                    f'{u} released at step {ev["step"]} without a request, '
                    f'version change or new input since its last release',
                )
            s.flags[u.key] = False
    if op == 'rep' and 'unit' in ev and sim.reply_dropped_by_known_finding(
            s, ev):
        out.fail(sim.KNOWN_DROP,
                 f'{ev["unit"]}: reply dropped, errors={ev["errors"]}')
        return
    if op == 'rep' and 'unit' in ev:
        u = ev['unit']
        if ev['outcome'] == 'success':
            want = s.expect_after_success(u, ev['newset'])
            for d, t in want:
                if t not in ev['after'][d][0]:
                    site = ''
                    if not (s.ref.inputs[d] & ev['newset']):
                        vs = [v for v in ev['newset']
                              if d in s.ref.feedbacks.get(v, ())]
                        if vs and all(
                            len(s.ref.feedbacks[v]) > 1 for v in vs
                        ):
                            site = '@second-feedback-consumer-of-one-value'
                    out.fail(
                        'complete/dependent-not-scheduled' + site,
                        f'{u} reported new {sorted(ev["newset"])}; {d} '
                        f'declares one of them but {t} is not pending '
                        f'(todo={sorted(ev["after"][d][0])})',
                    )
            # nothing else may be scheduled by this report
            wanted = {}
            for d, t in want:
                wanted.setdefault(d, set()).add(t)
            for n in ev['before']:
                grew = ev['after'][n][0] - ev['before'][n][0]
                extra = grew - wanted.get(n, set())
                if extra:
                    out.fail(
                        'minimal/scheduled-without-new-input',
                        f'{u} reported new {sorted(ev["newset"])}; {n} got '
                        f'{sorted(extra)} pending but reads none of them',
                    )
            allv = set(s.ref.values[u.jobid])
            if ev['newset'] and ev['newset'] < allv:
                kids = s.ref.children[u.jobid]
                if any(not (s.ref.inputs[k] & ev['newset']) for k in kids):
                    out.nontrivial = True
                    out.label('partial-new-and-unaffected-dependent')
            if ev['newset']:
                out.label('some-new')
            if any(v in s.ref.feedbacks for v in ev['newset']):
                out.label('feedback-value-new')
        else:
            s.had_failure = True
    for e in ev['errors']:
        if e[0] == 'exception':
            out.fail('farm/swallowed-exception', f'{e} op={ev["op"]}')


def at_end(s, out):
    if getattr(s, 'had_failure', False):
        return
    rounds, done, events = s.drain()
    for ev in events:
        check_event(s, ev, out)
        if out.failures:
            return
    if done:
        left = sorted(k for k, v in s.flags.items() if v)
        # a flag for a target unknown to an algorithm family cannot be met
        if left:
            out.fail(
                'complete/justified-unit-never-released',
                f'at quiescence these units were never run: {left}',
            )


def execute(case):
    return sim.run_history(case, check_event, at_end, pid=ID)


# ---- part e2e: end-to-end equivalence with a from-scratch evaluation


SUB = 'b'


def _h(*parts):
    import hashlib

    return hashlib.sha1(repr(parts).encode()).hexdigest()[:12]


def exec_e2e(case):
    '''task-only engine with executable algorithms on a real shelve store:
    every output value is a hash of (its name, the contents of the declared
    input values as loaded from the store, the epoch of (algorithm, target)
    when the value is epoch-sensitive).  Root re-runs with epoch bumps are
    interleaved with real executions (worker.Context.run) in generated
    order; at quiescence the latest stored content of every value must equal
    the from-scratch evaluation under the final epochs.'''
    import dawgie
    import dawgie.util

    from .. import store as storemod

    out = core.Outcome()
    spec = case['spec']
    storemod.use_real_digest_binaries(False)
    s = sim.Sim(spec, case['targets'], (), auto_workers=3, real_store=True)
    revert = case.get('mode') == 'revert'

    def ep(tag, tn):
        e = epoch.get((tag, tn), 0)
        # 'revert': a bumped value returns to a content it had before
        return e % 2 if revert else e
    epoch = {}
    sens = case['sens']
    runs = {}
    split = case.get('split')
    if split is not None:
        split %= len(spec['algs'])

    def hook(alg, ds):
        tag = f'{ds._task()}.{alg.name()}'
        tn = ds._tn()
        i = s.ref.tag.index(tag)
        ins = []
        for ref in alg.previous():
            for vref in dawgie.util.as_vref([ref]):
                up = (dawgie.util.task_name(vref.factory) + '.'
                      + vref.impl.name())
                val = vref.item[vref.feat]
                ins.append((up, vref.item.name(), vref.feat,
                            getattr(val, 'content', None)))
        ins.sort()
        n = 0
        for sv in alg.state_vectors():
            for vn in sv:
                e = ep(tag, tn) if (sens[i] >> n) & 1 else 0
                sv[vn].content = _h(tn, tag, sv.name(), vn, ins, e)
                n += 1
        runs[(tag, tn)] = runs.get((tag, tn), 0) + 1
        ds.update()
        if (case.get('twice', 0) >> i) & 1:
            # an algorithm may save intermediate results more than once; the
            # second report of an unchanged value says "not new"
            ds.update()
        if split is not None and i == split and '(' not in tn:
            # the algorithm also files its result under a sub-target
            # (Dataset.retarget): the affected target of that report is the
            # sub-target, not the target the run was made for
            sub = ds.retarget(SUB, [])
            n = 0
            for sv in alg.state_vectors():
                for vn in sv:
                    e = ep(tag, tn) if (sens[i] >> n) & 1 else 0
                    sv[vn].content = _h(sub._tn(), tag, sv.name(), vn, ins, e)
                    n += 1
            sub.update()

    dawgie._verif_run_hook = hook
    try:
        if s.missing:
            out.fail('graph/algorithm-missing-from-task-tree', str(s.missing))
            return out

        def settle(order):
            for _ in range(200):
                if s.idle():
                    return True
                s.do(['tick'])
                n = 0
                while s.handed():
                    s.do(['exec', order[n % len(order)] if order else 0])
                    n += 1
                for e in s.errors:
                    if e[0] == 'exception':
                        out.fail('farm/swallowed-exception', str(e))
                        return False
            return False

        s.do(['reqall'])
        if not settle([0]):
            out.fail('e2e/first-run-does-not-quiesce', '')
            return out
        bumps = 0
        for op in case['ops']:
            if op[0] == 'bump':
                tag = s.ref.tag[op[1] % len(s.ref.tag)]
                tn = case['targets'][op[2] % len(case['targets'])]
                epoch[(tag, tn)] = epoch.get((tag, tn), 0) + 1
                s.do(['req', [op[1]], [case['targets'].index(tn)]])
                bumps += 1
            elif op[0] == 'tick':
                s.do(['tick'])
            elif op[0] == 'exec':
                s.do(['exec', op[1]])
            for e in s.errors:
                if e[0] == 'exception':
                    out.fail('farm/swallowed-exception', str(e))
                    return out
        if not settle(case['order']):
            out.fail('e2e/does-not-quiesce',
                     f'que={[j.tag for j in s.sched.que]}')
            return out
        if bumps >= 2:
            out.nontrivial = True
        # ---- latest stored content per (target, value)
        from dawgie.db.shelve import util
        from dawgie.db.shelve.state import DBI
        import dawgie.db.util as dbu

        ind = DBI().indices
        latest = {}
        for key, blob in zip(util.prime_keys(DBI().tables.prime),
                             DBI().tables.prime.values()):
            run, tid, tsk, aid, sid, vid = key
            name = (util.dissect(ind.target[tid])[1],
                    util.dissect(ind.task[tsk])[1] + '.'
                    + util.dissect(ind.alg[aid])[1],
                    util.dissect(ind.state[sid])[1],
                    util.dissect(ind.value[vid])[1])
            if name[2] == '__metric__':
                continue
            if name not in latest or latest[name][0] < run:
                latest[name] = (run, blob)
        # ---- from-scratch evaluation in topological (spec) order
        for tn in case['targets']:
            ref = {}
            for i, a in enumerate(spec['algs']):
                tag = s.ref.tag[i]
                ins = sorted(
                    (v.rsplit('.', 2)[0], v.split('.')[-2], v.split('.')[-1],
                     ref[v]) for v in s.ref.inputs[tag])
                n = 0
                for sv in a['svs']:
                    for v in sv['vals']:
                        e = ep(tag, tn) if (sens[i] >> n) & 1 else 0
                        ref[f'{tag}.{sv["name"]}.{v["name"]}'] = _h(
                            tn, tag, sv['name'], v['name'], ins, e)
                        n += 1
            for full, want in sorted(ref.items()):
                tag, svn, vn = full.rsplit('.', 2)
                got = latest.get((tn, tag, svn, vn))
                if got is None:
                    out.fail('e2e/value-never-stored', f'{tn} {full}')
                    break
                content = dbu.decode(got[1]).content
                if content != want:
                    ups = sorted(s.ref.ancestors[tag])
                    out.fail(
                        'e2e/stored-differs-from-scratch-evaluation'
                        + ('@content-seen-before' if revert else ''),
                        f'{tn} {full}: latest stored (run {got[0]}) is '
                        f'{content}, a from-scratch evaluation under the '
                        f'final epochs gives {want}; upstream {ups}; runs '
                        f'{runs.get((tag, tn))}; epochs '
                        f'{ {k: v for k, v in epoch.items() if k[1] == tn} }',
                    )
                    break
            if out.failures:
                break
            if split is None:
                continue
            # ---- the sub-target: what the splitting algorithm filed there,
            # and everything downstream of it evaluated for the sub-target
            # (values of other algorithms do not exist there: default content)
            stag = s.ref.tag[split]
            stn = f'{tn} ({SUB})'
            sref = {}
            for i, a in enumerate(spec['algs']):
                tag = s.ref.tag[i]
                down = tag in s.ref.descendants[stag]
                if tag == stag:
                    ins = sorted(
                        (v.rsplit('.', 2)[0], v.split('.')[-2],
                         v.split('.')[-1], ref[v]) for v in s.ref.inputs[tag])
                elif down:
                    ins = sorted(
                        (v.rsplit('.', 2)[0], v.split('.')[-2],
                         v.split('.')[-1], sref.get(v))
                        for v in s.ref.inputs[tag])
                n = 0
                for sv in a['svs']:
                    for v in sv['vals']:
                        full = f'{tag}.{sv["name"]}.{v["name"]}'
                        if tag == stag:
                            e = ep(tag, tn) if (sens[i] >> n) & 1 else 0
                            sref[full] = _h(stn, tag, sv['name'], v['name'],
                                            ins, e)
                        elif down:
                            sref[full] = _h(stn, tag, sv['name'], v['name'],
                                            ins, 0)
                        n += 1
            for full, want in sorted(sref.items()):
                tag, svn, vn = full.rsplit('.', 2)
                got = latest.get((stn, tag, svn, vn))
                if got is None:
                    out.fail('e2e/value-never-stored@sub-target',
                             f'{stn} {full}: {stag} files its result for '
                             f'{tn} under {stn}; {tag} declares it as input '
                             'and never ran for that sub-target')
                    break
                content = dbu.decode(got[1]).content
                if content != want:
                    out.fail(
                        'e2e/stored-differs-from-scratch-evaluation'
                        + ('@content-seen-before' if revert
                           else '@sub-target'),
                        f'{stn} {full}: latest stored (run {got[0]}) is '
                        f'{content}, from scratch {want}')
                    break
            if sref and len(sref) > sum(
                    len(sv['vals']) for sv in spec['algs'][split]['svs']):
                out.label('sub-target-with-consumers')
            if out.failures:
                break
        if any(len(s.ref.descendants[t]) >= 2 for t in s.ref.tag):
            out.label('chain>=3')
        out.label(f'bumps-{min(bumps, 4)}')
        out.label('mode-revert' if revert else 'mode-unique')
    finally:
        dawgie._verif_run_hook = None
        s.close()
    return out


def _e2e_case():
    from hypothesis import strategies as st

    from .. import engines

    @st.composite
    def build(draw):
        spec = draw(engines.specs(max_algs=5, max_pkgs=2, kinds=('task',),
                                  feedback=False, min_algs=2,
                                  levels=('alg', 'sv', 'val', 'val')))
        targets = draw(st.lists(st.sampled_from(sim.TARGET_POOL[:2]),
                                unique=True, min_size=1, max_size=2))
        n = len(spec['algs'])
        op = st.one_of(
            st.tuples(st.just('bump'), st.integers(0, n - 1),
                      st.integers(0, 1)).map(list),
            st.tuples(st.just('bump'), st.integers(0, 1),
                      st.integers(0, 1)).map(list),
            st.just(['tick']),
            st.tuples(st.just('exec'), st.integers(0, 3)).map(list),
            st.tuples(st.just('exec'), st.integers(0, 3)).map(list),
        )
        return {
            'spec': spec,
            'targets': targets,
            'sens': draw(st.lists(st.sampled_from([0, 1, 2, 3, 5, 511, 511]),
                                  min_size=n, max_size=n)),
            'ops': draw(st.lists(op, min_size=2, max_size=20)),
            'order': draw(st.lists(st.integers(0, 3), min_size=1,
                                   max_size=5)),
            'mode': draw(st.sampled_from(['unique'] * 5 + ['revert'])),
            'twice': draw(st.sampled_from([0, 0, 1, 2, 3, 31])),
            'split': draw(st.sampled_from([None, None, 0, 0, 1, 2])),
        }

    return build()


def _overtaken():
    '''skeleton histories: along a generated dependency path A -> B (-> C)
    B is released, A runs again and reports new values while B is in flight
    (B is queued again under the newer run ID), then B's first result
    arrives; generated operations are interleaved between the steps'''
    from hypothesis import strategies as st

    from .. import engines

    @st.composite
    def build(draw):
        spec = draw(engines.specs(
            max_algs=5, max_pkgs=2, min_algs=3, feedback=False,
            kinds=('task', 'task', 'task', 'analysis', 'regress'),
            levels=('alg', 'sv', 'val')))
        ref = engines.RefGraph(spec)
        pairs = [(ref.tag.index(p), ref.tag.index(c))
                 for c in ref.tag for p in sorted(ref.parents[c])]
        targets = draw(st.lists(st.sampled_from(sim.TARGET_POOL[:3]),
                                unique=True, min_size=1, max_size=2))
        ops = []
        noise = sim.op_strategy({'auto2': 4, 'tgt': 0})
        if pairs:
            a, b = draw(st.sampled_from(pairs))
            new = st.sampled_from([4095, 4095, 4095, 1, 2, 3])
            skeleton = [
                ['req', [a], [0]], ['tick'],
                ['repu', a, 0, draw(new), 1], ['tick'],      # B released
                ['req', [a], [0]], ['tick'],
                ['repu', a, 0, draw(new), 1],                # B queued again
                ['repu', b, 0, draw(new), draw(st.integers(0, 1))],
                ['tick'], ['repu', b, 0, draw(st.sampled_from([0, 4095])), 0],
                ['tick'],
            ]
            for step in skeleton:
                if draw(st.integers(0, 5)) == 0:
                    ops.append(draw(noise))
                ops.append(step)
        ops += draw(st.lists(noise, max_size=10))
        return {'spec': spec, 'targets': targets, 'bumped': [],
                'workers': 4, 'ops': ops,
                'seg': draw(st.sampled_from([0, 0, 0, 5]))}

    return build()


def parts(tier):
    q = tier == 'quick'
    return [
        core.Part(
            'law', execute,
            strategy=sim.histories(
                weights={},
                spec_kw={'min_algs': 2, 'levels': ('alg', 'sv', 'val', 'val'),
                         'selfref': True},
            ),
            cases=1600 if q else 40000, batch=200,
        ),
        core.Part(
            'timers', execute,
            strategy=sim.histories(
                weights={'timer': 8},
                spec_kw={'min_algs': 2, 'events': True,
                         'levels': ('alg', 'sv', 'val', 'val')},
            ),
            cases=400 if q else 10000, batch=200,
        ),
        core.Part(
            'faults', execute,
            strategy=sim.histories(
                weights={'dbfault': 3},
                spec_kw={'min_algs': 2, 'levels': ('alg', 'sv', 'val', 'val')},
            ),
            cases=400 if q else 10000, batch=200,
        ),
        # chains of tasks where upstream algorithms run again while their
        # dependents are in flight (a unit is overtaken by a newer event)
        core.Part('overtake', execute, strategy=_overtaken(),
                  cases=600 if q else 15000, batch=200),
        core.Part('e2e', exec_e2e, strategy=_e2e_case,
                  cases=200 if q else 6000, batch=40),
    ]
