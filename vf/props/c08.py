'''C08 - catalogue integrity and exact addressing.

State machine on the shelve rig with names from prefix families (Alg, Alg2,
Alg20, A; s, s1; v, v1, vv; T, T1, TT): registrations (db.update from worker
and foreman side, Dataset.update, db.add), removals, version reset, trace,
next, close/reopen.  After every step the catalogue tables are checked
(ids 0..n-1, index = inverse of table, ids never change, parent chain
resolves, next() > every stored run) and the prime table is compared with the
harness model, so a removal that takes too much or too little shows at once.
'''

from hypothesis import strategies as st

from .. import core, store

ID = 'C08'
LEVEL = 'exploration'
RULE = (
    'Generated: 1-4 algorithms whose names come from prefix families under '
    'two tasks (tk, tk2), 1-2 state vectors, 1-3 values; history of 4-30 '
    'operations: upd(target, run from {0,1,2,3,9,10,11,17,100}, alg), '
    'reg(alg, side) (version registration through db.update), bump '
    '(new version of an algorithm / state vector / value, optionally '
    'registered several times to drive ids past 10), tgt, rm(run, target, '
    'alg, sv, value), reset(run, target, alg), trace(algs), reopen. '
    'Non-trivial: two names where one is a proper prefix of the other exist '
    'under the same parent and a name-addressed operation (rm, reset, trace) '
    'targets the shorter one, or ids/run IDs reach two digits. Distinct = '
    'SHA-1 of case JSON.'
    ' visit: the process closes the database, fills another one with the sa'
    'me catalogue names in the opposite order, closes it and comes back. '
)
ASSUMPTIONS = [
    'shelve backend only; names contain neither "." nor the reserved '
    'separators ":parent___" / "___version:"',
    'reset is called for a run/target/task/algorithm that has stored entries '
    '(its documented use); trace for registered task.algorithm names',
    'when an algorithm has entries of several versions for the same run and '
    'target, reset may pick any of them',
    'lock granted immediately (C13)',
]

P = store.pools(True)
RUNS = [0, 1, 2, 3, 9, 10, 11, 17, 100]


@st.composite
def _case(draw, wide=False):
    pool = draw(store.alg_pool(True, max_algs=4))
    n = len(pool)
    a = st.integers(0, n - 1)
    t = st.sampled_from(P['targets'][:1] if wide else P['targets'])
    run = st.sampled_from([3, 10] if wide else RUNS)
    op = st.one_of(
        st.tuples(st.just('upd'), t, run, a).map(list),
        st.tuples(st.just('upd'), t, run, a).map(list),
        st.tuples(st.just('upd'), t, run, a).map(list),
        st.tuples(st.just('reg'), a, st.integers(0, 1)).map(list),
        st.tuples(st.just('regfault'), a, st.integers(0, 1)).map(list),
        st.tuples(st.just('bump'), a, st.sampled_from(['a', 's', 'v']),
                  st.integers(0, 1), st.integers(0, 2), st.integers(0, 2),
                  st.sampled_from([0, 1, 1, 4, 9])).map(list),
        st.tuples(st.just('tgt'), t).map(list),
        st.tuples(st.just('rm'), run, t, a, st.integers(0, 1),
                  st.integers(0, 2)).map(list),
        st.tuples(st.just('rm'), run, t, a, st.integers(0, 1),
                  st.integers(0, 2)).map(list),
        st.tuples(st.just('reset'), run, t, a).map(list),
        st.tuples(st.just('reset'), run, t, a).map(list),
        st.tuples(st.just('trace'), st.lists(a, min_size=1, max_size=3)
                  ).map(list),
        st.tuples(st.just('aimed'), st.sampled_from(['rm', 'reset', 'reset']),
                  st.integers(0, 200)).map(list),
        st.tuples(st.just('aimed'), st.sampled_from(['rm', 'reset', 'reset']),
                  st.integers(0, 200)).map(list),
        st.tuples(st.just('worm'), st.sampled_from([0, 0, 1, 3, 10]), t, a,
                  st.sampled_from([1, 3, 7, 15, 63, 13, 2, 12])).map(list),
        st.just(['next']),
        st.just(['reopen']),
        st.just(['visit']),
    )
    ops = draw(st.lists(op, min_size=4, max_size=30))
    if wide:
        # ids whose decimal text begins with another id: register everything,
        # then many versions of one element, so that ids pass 10 early
        pre = [['reg', i, 0] for i in range(n)]
        pre.append(['bump', draw(a), draw(st.sampled_from(['a', 'a', 's', 'v'])),
                    draw(st.integers(0, 1)), draw(st.integers(0, 2)), 2, 9])
        tgt = P['targets'][0]
        post = [['upd', tgt, 10, i] for i in range(n)]
        post += [['reset', 10, tgt, i] for i in range(n)]
        post += [['trace', list(range(n))]]
        ops = pre + ops + post
    return {'pool': pool, 'ops': ops}


def _prefix_sibling(s, i):
    '''is another algorithm of the same task a proper extension of i's name?'''
    a = s.pool[i]
    return any(b is not a and b['task'] == a['task']
               and b['name'].startswith(a['name']) and b['name'] != a['name']
               for b in s.pool)


def _registered_versions(s, task, name):
    '''versions registered for exactly (task, name), from the alg table'''
    from dawgie.db.shelve import util

    tables, _i = s.tables()
    tid = tables.task.get(task)
    out = []
    for full in tables.alg:
        parent, n, ver = util.dissect(full)
        if parent == tid and n == name:
            out.append(tuple(ver._get_ver()))
    return out


def execute(case):
    from .c06 import bump

    out = core.Outcome()
    s = store.Store(case['pool'])
    try:
        for op in case['ops']:
            where = str(op)
            if op[0] == 'aimed':
                # address an entry that exists right now
                keys = sorted(s.model)
                if not keys:
                    continue
                key = keys[op[2] % len(keys)]
                i = [n for n, a in enumerate(s.pool)
                     if a['task'] == key[2] and a['name'] == key[3]][0]
                if op[1] == 'rm':
                    j = [n for n, sv in enumerate(s.pool[i]['svs'])
                         if sv['name'] == key[5]][0]
                    k = s.pool[i]['svs'][j]['vals'].index(key[7])
                    op = ['rm', key[0], key[1], i, j, k]
                else:
                    op = ['reset', key[0], key[1], i]
            kind = op[0]
            ids_before = store.snapshot_ids(s)
            if kind == 'upd':
                s.update(op[1], op[2], op[3], [where, op[2]])
            elif kind == 'reg':
                s.register(op[1], bool(op[2]))
            elif kind == 'regfault':
                # new versions first, so that the registration has to write
                bump(s, ['bump', op[1], 'a', 0, 0, 2])
                bump(s, ['bump', op[1], 'v', 0, 0, 2])
                if s.register_with_write_fault(op[1], bool(op[2])):
                    out.nontrivial = True
                    out.label('catalogue-write-failed-once')
            elif kind == 'bump':
                for _ in range(1 + op[6]):
                    bump(s, op[:6])
                    if op[6]:
                        s.register(op[1], False)
            elif kind == 'tgt':
                s.add_target(op[1])
            elif kind == 'rm':
                _, run, t, i, j, k = op
                a = s.pool[i]
                j %= len(a['svs'])
                k %= len(a['svs'][j]['vals'])
                tables, _ = s.tables()
                if t in tables.target and a['task'] in tables.task:
                    if _prefix_sibling(s, i) or len(a['svs'][j]['vals']) > 1:
                        out.label('rm-with-prefix-sibling')
                    s.remove(run, t, i, j, k)
            elif kind == 'worm':
                # the command-line removal tool with wildcards; run ID 0 (the
                # run ID of every regression) is a run ID, not a wildcard
                _, run, t, i, fields = op
                a = s.pool[i]
                req = [run, t, a['task'], a['name'],
                       a['svs'][0]['name'], a['svs'][0]['vals'][0]]
                for n in range(6):
                    if not (fields >> n) & 1:
                        req[n] = None
                if any(x is not None for x in req):
                    gone = s.worm(req)
                    out.label('worm')
                    if req[0] == 0 and len({k[0] for k in s.model}) >= 1:
                        out.nontrivial = True
                        out.label('worm-addressed-to-run-0')
                    del gone
            elif kind == 'reset':
                _, run, t, i = op
                a = s.pool[i]
                mine = [key for key in s.model
                        if key[0] == run and key[1] == t and key[2] == a['task']
                        and key[3] == a['name']]
                if mine:
                    alg = s.make_alg(i, None)
                    # start from versions nothing was stored with
                    alg._set_ver((7, 7, 7))
                    for sv in alg.state_vectors():
                        sv._set_ver((7, 7, 7))
                    s.db.reset(run, t, a['task'], alg)
                    want_a = {key[4] for key in mine}
                    got_a = tuple(alg._get_ver())
                    if _prefix_sibling(s, i):
                        out.nontrivial = True
                        out.label('reset-with-prefix-sibling')
                    if got_a not in want_a:
                        out.fail(
                            'reset/algorithm-version-not-the-recorded-one',
                            f'{where}: {a["task"]}.{a["name"]} recorded '
                            f'{sorted(want_a)} for run {run} on {t}, reset '
                            f'gave {got_a}',
                        )
                    for sv in alg.state_vectors():
                        want_s = {key[6] for key in mine
                                  if key[5] == sv.name() and key[4] == got_a}
                        got_s = tuple(sv._get_ver())
                        if want_s and got_s not in want_s:
                            out.fail(
                                'reset/state-vector-version-not-recorded',
                                f'{where}: {sv.name()} recorded '
                                f'{sorted(want_s)}, reset gave {got_s}',
                            )
            elif kind == 'trace':
                tables, _ = s.tables()
                names = []
                for i in op[1]:
                    a = s.pool[i]
                    if (a['task'] in tables.task and _registered_versions(
                            s, a['task'], a['name'])):
                        tan = f'{a["task"]}.{a["name"]}'
                        if tan not in names:
                            names.append(tan)
                            if _prefix_sibling(s, i):
                                out.nontrivial = True
                                out.label('trace-with-prefix-sibling')
                if names:
                    got = s.db.trace(names)
                    want = {}
                    for tn in list(tables.target):
                        want[tn] = {}
                        for tan in names:
                            task, name = tan.split('.')
                            top = max(_registered_versions(s, task, name))
                            runs = [k[0] for k in s.model
                                    if k[1] == tn and k[2] == task
                                    and k[3] == name and k[4] == top]
                            if not runs and '__all__' in tables.target:
                                runs = [k[0] for k in s.model
                                        if k[1] == '__all__' and k[2] == task
                                        and k[3] == name and k[4] == top]
                            if runs:
                                want[tn][tan] = max(runs)
                    if got != want:
                        diff = {tn: (got.get(tn), want.get(tn))
                                for tn in set(got) | set(want)
                                if got.get(tn) != want.get(tn)}
                        out.fail('trace/differs-from-exact-names',
                                 f'{where}: (got, want) per target: {diff}')
            elif kind == 'next':
                pass  # checked by check_catalogue below
            elif kind == 'visit':
                # the process works on another database in between
                if s.visit_other_database():
                    out.label('another-database-visited')
            elif kind == 'reopen':
                s.reopen()
                out.label('reopen')
            store.check_ids_stable(ids_before, s, out, where)
            store.check_catalogue(s, out, where)
            store.check_model_matches_prime(s, out, where)
            if out.failures:
                break
            tables, _ = s.tables()
            if any(len(getattr(tables, tn)) > 10 for tn in
                   ('alg', 'state', 'value')):
                out.nontrivial = True
                out.label('ids-two-digits')
            if any(k[0] >= 10 for k in s.model) and any(
                    k[0] < 10 for k in s.model):
                out.nontrivial = True
                out.label('run-ids-of-different-width')
        if 'rm-with-prefix-sibling' in out.labels:
            out.nontrivial = True
    finally:
        s.close()
    return out


def parts(tier):
    q = tier == 'quick'
    return [
        core.Part('history', execute, strategy=_case(),
                  cases=640 if q else 16000, batch=80),
        core.Part('wide', execute, strategy=_case(wide=True),
                  cases=320 if q else 8000, batch=80),
    ]
