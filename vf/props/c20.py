'''C20 - timer events are computable, land on their moment, keep recurring.

Part grid / random: schedule._delay as a function of (moment, clock instant),
against calendar arithmetic done here by stepping day by day.
Part history: real schedule.periodics / defer / farm over a generated engine
with timer events, the reactor's callLater and the wall clock both owned by
the harness; workers always answer.
'''

import calendar
import datetime
import itertools

from hypothesis import strategies as st

from .. import core, engines, sim, world

ID = 'C20'
LEVEL = 'exploration'
RULE = (
    'Generated: a moment accepted by compliant.rule_10 in the documented '
    'ranges (dow 0..6, dom 1..31, date, boot; any time of day) x a clock '
    'instant. Part grid enumerates dom 1..31 and dow 0..6 x 3 times of day x '
    'every day of 2023-01-01..2028-12-31 (thorough; quick: the days within 3 '
    'of a month end) x 3 instants of that day; part random draws instants '
    'with microseconds from 2000..2100. Part history: engine with timer '
    'events, boot at a generated instant, then clock advances (firing '
    'reactor timers), dispatch ticks and replies over up to 10 weeks. '
    'Non-trivial: instant within 2 days of a month end or dom >= 29 (delay '
    'parts); an event came due after boot or the history spans >= 2 periods '
    '(history). Distinct = SHA-1 of the case JSON.'
    ' Part accepted: the candidate sits among 0-2 well-formed events of the'
    ' same package at a generated position. History part: engines may have '
    'two classes of one name in two modules of a task, both with events. '
)
ASSUMPTIONS = [
    'moments as accepted by rule_10 within the documented ranges: dow 0..6 '
    '(Monday=0), dom 1..31, datetime.date, boot=True, datetime.time without '
    'tzinfo; all instants UTC',
    'a negative delay (the moment is today and its time of day has passed) '
    'is accepted as "due": the property bounds the delay from above only; '
    'the designated moment must be younger than one period',
    'date (one-shot) events: only "designates exactly that date and time"',
    'history: workers always answer; the harness owns reactor.callLater and '
    'the wall clock; stub database; FSM stand-in always active',
    'recurrence is counted per period with one firing of slack at each end',
]

UTC = datetime.UTC


class _Impl:
    def __init__(self, name):
        self._n = name

    def name(self):
        return self._n


def _factory(_prefix=None):
    return None


def _factory2(_prefix=None):
    return None


def _mk_event(m, name='alg', fac=None):
    import dawgie

    impl = _Impl(name)
    if fac is not None:
        return dawgie.schedule(fac, impl, boot=True)
    if m.get('boot'):
        return dawgie.schedule(_factory, impl, boot=True)
    t = datetime.time(*m['time'])
    if 'dow' in m:
        return dawgie.schedule(_factory, impl, dow=m['dow'], time=t)
    if 'dom' in m:
        return dawgie.schedule(_factory, impl, dom=m['dom'], time=t)
    return dawgie.schedule(
        _factory, impl, day=datetime.date(*m['day']), time=t
    )


def matches(m, d: datetime.date):
    if 'dow' in m:
        return d.weekday() == m['dow']
    if 'dom' in m:
        return d.day == m['dom']
    return False


def next_match(m, now: datetime.datetime):
    '''first moment >= now that matches (day by day; reference arithmetic)'''
    d = now.date()
    t = datetime.time(*m['time'])
    for _ in range(400):
        if matches(m, d):
            c = datetime.datetime.combine(d, t, tzinfo=UTC)
            if c >= now:
                return c
        d += datetime.timedelta(days=1)
    raise core.HarnessError(f'no matching day for {m}')


def prev_match(m, now: datetime.datetime):
    '''last moment < now that matches'''
    d = now.date()
    t = datetime.time(*m['time'])
    for _ in range(400):
        if matches(m, d):
            c = datetime.datetime.combine(d, t, tzinfo=UTC)
            if c < now:
                return c
        d -= datetime.timedelta(days=1)
    raise core.HarnessError(f'no matching day for {m}')


def _near_month_end(now, days=2):
    last = calendar.monthrange(now.year, now.month)[1]
    return now.day <= days or now.day > last - days


def exec_delay(case):
    import dawgie.pl.schedule as sched

    out = core.Outcome()
    m = case['m']
    now = datetime.datetime(*case['now'], tzinfo=UTC)
    clock = world.Clock(now)
    real = sched.datetime
    sched.datetime = world.fake_datetime_module(clock)
    sched.booted.clear()
    try:
        ev = _mk_event(m)
        kind = 'boot' if m.get('boot') else [k for k in ('dow', 'dom', 'day')
                                             if k in m][0]
        out.label('kind-' + kind)
        try:
            delay = sched._delay(ev)
        except Exception as exc:  # pylint: disable=broad-except
            out.fail(
                f'delay/raises-{type(exc).__name__}@{kind}',
                f'_delay({m}) at {now.isoformat()} raised '
                f'{type(exc).__name__}: {exc}',
            )
            return out
        then = now + delay
        if kind == 'boot':
            if delay.total_seconds() != 0:
                out.fail('delay/boot-not-immediate', f'{delay}')
            try:
                sched._delay(ev)
                out.fail('boot/second-delay-computed',
                         'a boot event already handed out is due again')
            except sched._DelayNotKnowableError:
                pass
            for what, other in (
                ('another algorithm of the same factory',
                 _mk_event(m, 'other')),
                ('an algorithm of the same name from another factory',
                 _mk_event(m, 'alg', _factory2)),
            ):
                try:
                    d2 = sched._delay(other).total_seconds()
                    if d2 != 0:
                        out.fail('delay/boot-not-immediate', f'{d2}')
                except sched._DelayNotKnowableError:
                    out.fail('boot/not-fired-at-boot',
                             f'the boot event of {what} is taken for the one '
                             'already handed out')
            out.nontrivial = True
            return out
        t = datetime.time(*m['time'])
        if kind == 'day':
            want = datetime.datetime.combine(
                datetime.date(*m['day']), t, tzinfo=UTC)
            if then != want:
                out.fail('delay/wrong-date', f'{m} at {now}: designates {then}')
            out.nontrivial = True
            return out
        if not matches(m, then.date()) or then.timetz().replace(
            tzinfo=None
        ) != t:
            out.fail(
                f'delay/moment-does-not-match@{kind}',
                f'{m} at {now.isoformat()}: designates {then.isoformat()}',
            )
            return out
        nxt = next_match(m, now)
        if then > nxt:
            out.fail(
                f'delay/further-than-next-moment@{kind}',
                f'{m} at {now.isoformat()}: designates {then.isoformat()} '
                f'but {nxt.isoformat()} comes first',
            )
        if then < now:
            out.label('delay-negative')
            if then != prev_match(m, now):
                out.fail(
                    f'delay/older-than-one-period@{kind}',
                    f'{m} at {now.isoformat()}: designates {then.isoformat()}'
                    f' although {prev_match(m, now).isoformat()} is more '
                    'recent',
                )
        if _near_month_end(now) or m.get('dom', 0) >= 29:
            out.nontrivial = True
            out.label('month-end-or-dom>=29')
        if now.month == 2 or (now.month == 1 and m.get('dom', 0) >= 29):
            out.label('february-involved')
    finally:
        sched.datetime = real
        sched.booted.clear()
    return out


TIMES = [[0, 0, 0], [12, 0, 0], [23, 59, 59]]
NOWS = [[0, 0, 0, 0], [12, 0, 1, 0], [23, 59, 59, 999999]]


def _grid(quick):
    def gen():
        d = datetime.date(2023, 1, 1)
        end = datetime.date(2028, 12, 31)
        days = []
        while d <= end:
            last = calendar.monthrange(d.year, d.month)[1]
            if not quick or d.day <= 2 or d.day >= last - 2 or d.day == 15:
                days.append(d)
            d += datetime.timedelta(days=1)
        moments = [{'dom': k, 'time': t} for k in range(1, 32) for t in TIMES]
        moments += [{'dow': k, 'time': t} for k in range(7) for t in TIMES]
        if quick:
            moments = [m for m in moments if m['time'] != [0, 0, 0]]
        for m, d, n in itertools.product(moments, days, NOWS):
            yield {'m': m, 'now': [d.year, d.month, d.day] + n}

    return gen


_time = st.tuples(st.integers(0, 23), st.integers(0, 59),
                  st.integers(0, 59)).map(list)
_moment = st.one_of(
    st.fixed_dictionaries({'dow': st.integers(0, 6), 'time': _time}),
    st.fixed_dictionaries({'dom': st.integers(1, 31), 'time': _time}),
    st.fixed_dictionaries({'dom': st.integers(28, 31), 'time': _time}),
    st.fixed_dictionaries(
        {'day': st.dates(datetime.date(2000, 1, 1),
                         datetime.date(2100, 12, 31)).map(
            lambda d: [d.year, d.month, d.day]), 'time': _time}),
    st.just({'boot': True}),
)
_now = st.datetimes(
    datetime.datetime(2000, 1, 1), datetime.datetime(2100, 12, 31)
).map(lambda d: [d.year, d.month, d.day, d.hour, d.minute, d.second,
                 d.microsecond])


@st.composite
def _near_now(draw):
    '''instants close to a month boundary'''
    y = draw(st.integers(2000, 2100))
    mo = draw(st.integers(1, 12))
    last = calendar.monthrange(y, mo)[1]
    day = draw(st.sampled_from([1, 2, last - 2, last - 1, last]))
    h, mi, s = draw(_time)
    return [y, mo, day, h, mi, s, draw(st.sampled_from([0, 1, 999999]))]


_random_case = st.fixed_dictionaries(
    {'m': _moment, 'now': st.one_of(_now, _near_now())}
)


# --------------------------------------------------------------------------
# part accepted: whatever compliant.rule_10 lets through must be computable


_CAND_SEQ = [0]


def exec_accepted(case):
    '''a candidate moment - well-formed or not - is put before the real
    compliant.rule_10 (as the events() factory of a package on disk); when the
    rule accepts it, _delay must work at every probed instant'''
    import importlib
    import sys

    import dawgie
    import dawgie.pl.schedule as sched
    import dawgie.tools.compliant as comp

    out = core.Outcome()
    # the package may declare several events; the candidate under test sits
    # at a generated position among well-formed ones
    cands = [case['cand']]
    pos = 0
    if case.get('others'):
        pos = case.get('pos', 0) % (len(case['others']) + 1)
        cands = case['others'][:pos] + [case['cand']] + case['others'][pos:]
        out.label('several-events-candidate-' + (
            'last' if pos == len(case['others']) else 'not-last'))
    c = case['cand']

    def moment(m):
        t = ('None' if m['time'] is None
             else 'datetime.time({}, {}, {})'.format(*m['time']))
        day = ('None' if m['day'] is None
               else 'datetime.date({}, {}, {})'.format(*m['day']))
        return (f'dawgie.EVENT(dawgie.ALG_REF(task, Impl()), dawgie.MOMENT('
                f'{m["boot"]!r}, {day}, {m["dom"]!r}, {m["dow"]!r}, {t}))')

    src = (
        'import datetime\nimport dawgie\n\n\n'
        'class Impl:\n    def name(self):\n        return "alg"\n\n\n'
        'def task(prefix=None, ps_hint=0, runid=-1, target="__none__"):\n'
        '    return None\n\n\ndef events():\n'
        '    return [' + ', '.join(moment(m) for m in cands) + ']\n'
    )
    root = world.fresh_dir('c20pkg')
    _CAND_SEQ[0] += 1
    name = f'vfc20p{_CAND_SEQ[0]}'
    import os

    os.makedirs(os.path.join(root, name))
    with open(os.path.join(root, name, '__init__.py'), 'wt',
              encoding='utf-8') as f:
        f.write(src)
    sys.path.insert(0, root)
    real = sched.datetime
    try:
        try:
            ok = bool(comp.rule_10(name))
        except Exception:  # pylint: disable=broad-except
            ok = False  # "any exception counts as failure"
        selectors = [c['boot'] is not None, c['day'] is not None,
                     c['dom'] is not None, c['dow'] is not None]
        wellformed = (
            sum(selectors) == 1
            and (c['boot'] is not None or c['time'] is not None)
            and (c['dom'] is None or isinstance(c['dom'], int))
            and (c['dow'] is None or isinstance(c['dow'], int))
        )
        out.label('accepted' if ok else 'rejected')
        if not wellformed:
            out.nontrivial = True
            out.label('malformed-candidate')
        if ok:
            ev = importlib.import_module(name).events()[pos]
            in_range = ((c['dom'] is None or 1 <= c['dom'] <= 31)
                        and (c['dow'] is None or 0 <= c['dow'] <= 6))
            for now in case['nows']:
                clock = world.Clock(datetime.datetime(*now, tzinfo=UTC))
                sched.datetime = world.fake_datetime_module(clock)
                sched.booted.clear()
                try:
                    sched._delay(ev)
                except Exception as exc:  # pylint: disable=broad-except
                    if not in_range:
                        out.label('out-of-documented-range')
                        continue
                    out.fail(
                        f'delay/raises-{type(exc).__name__}@accepted-by-rule_10',
                        f'rule_10 accepts MOMENT(boot={c["boot"]}, day='
                        f'{c["day"]}, dom={c["dom"]}, dow={c["dow"]}, time='
                        f'{c["time"]}) but _delay at {now} raised '
                        f'{type(exc).__name__}: {exc}',
                    )
                    break
    finally:
        sched.datetime = real
        sched.booted.clear()
        sys.path.remove(root)
        sys.modules.pop(name, None)
        world.rm(root)
    return out


_cand = st.fixed_dictionaries({
    'boot': st.sampled_from([None, None, None, True]),
    'day': st.sampled_from([None, None, None, [2024, 2, 29], [2026, 12, 31]]),
    'dom': st.sampled_from([None, None, None, 1, 15, 29, 31, '3']),
    'dow': st.sampled_from([None, None, None, 0, 3, 6, '2']),
    'time': st.one_of(st.none(), _time),
})
_good = st.one_of(
    st.fixed_dictionaries({'boot': st.none(), 'day': st.none(),
                           'dom': st.none(), 'dow': st.integers(0, 6),
                           'time': _time}),
    st.fixed_dictionaries({'boot': st.none(), 'day': st.none(),
                           'dom': st.sampled_from([1, 15, 28]),
                           'dow': st.none(), 'time': _time}),
)
_accepted_case = st.fixed_dictionaries({
    'cand': _cand,
    'others': st.one_of(st.just([]), st.lists(_good, min_size=1, max_size=2)),
    'pos': st.integers(0, 2),
    'nows': st.lists(st.one_of(_now, _near_now()), min_size=2, max_size=4),
})


# --------------------------------------------------------------------------
# history


TClock = world.TClock


def exec_history(case):
    import dawgie
    import dawgie.pl.schedule as sched
    import twisted.internet.reactor as reactor
    from dawgie.pl.jobinfo import State

    out = core.Outcome()
    start = datetime.datetime(*case['start'], tzinfo=UTC)
    clock = TClock(start)
    real_call_later = reactor.callLater
    real_defer = sched.defer
    reactor.callLater = clock.tc.callLater
    s = sim.Sim(case['spec'], case['targets'], (), auto_workers=3, clock=clock)
    fired = []  # (instant, tag, pending targets right after the firing)
    reloads = []
    completed = {}  # tag -> instants at which a fired run had finished

    def spy_defer():
        nodes = {id(n): n for n in sched.per}.values()
        before = {id(n): n.get('status') for n in nodes}
        try:
            real_defer()
        except Exception as exc:  # pylint: disable=broad-except
            out.failures.append(core.crash_failure(exc, 'schedule.defer'))
            raise
        for n in nodes:
            if n.get('status') == State.waiting and before[id(n)] not in (
                State.waiting, State.running
            ):
                fired.append((clock.now, n.tag, set(n.get('todo')),
                              set(s.db.target_list)))

    sched.defer = spy_defer
    try:
        events = []  # (tag, moment)
        for a_i, a in enumerate(case['spec']['algs']):
            for m in a['events']:
                events.append((s.ref.tag[a_i], m))

        def settle(where):
            tags = [j.tag for j in sched.que]
            dup = {t for t in tags if tags.count(t) > 1}
            if dup:
                out.fail('queue/duplicate-entry',
                         f'{where}: schedule.que holds {sorted(dup)} twice')
            nf = len(fired)
            _rounds, done, _evs = s.drain(bound=60)
            if not done:
                out.fail('drain/does-not-quiesce',
                         f'{where}: que={[j.tag for j in sched.que]}')
            for f in fired[:nf]:
                completed.setdefault(f[1], []).append(clock.now)
            return done

        sched.periodics(s.eng.factories[dawgie.Factories.events])
        per_tags = sorted({n.tag for n in sched.per})
        want_tags = sorted({t for t, _m in events})
        if per_tags != want_tags:
            out.fail('periodics/wrong-nodes',
                     f'schedule.per={per_tags} declared={want_tags}')
        ok = settle('boot')
        for op in case['ops']:
            if not ok or out.failures:
                break
            if op[0] == 'adv':
                clock.advance(op[1])
            elif op[0] == 'tgt':
                s.add_target(op[1])
            elif op[0] == 'reload':
                # the AE is reloaded in the same process (update): new module,
                # factory and algorithm objects for the same events
                reloads.append(clock.now)
                s.reload_engine()
                sched.periodics(s.eng.factories[dawgie.Factories.events])
                out.label('engine-reloaded')
            ok = settle(str(op))
        end = clock.now
        # ---- oracle over the firing log
        for when, tag, todo, known in fired:
            want = {'__all__'} if s.ref.is_analysis(tag) else known
            if todo != want:
                out.fail('fire/wrong-targets',
                         f'{tag} queued at {when.isoformat()} with '
                         f'{sorted(todo)}; known targets {sorted(known)}')
            ms = [m for t, m in events if t == tag]
            near = False
            for m in ms:
                if m.get('boot') or 'day' in m:
                    near = True
                    continue
                for cand in (next_match(m, when - datetime.timedelta(days=1)),
                             next_match(m, when)):
                    if (cand - datetime.timedelta(seconds=301) <= when
                            <= cand + datetime.timedelta(days=1)):
                        near = True
            if not near:
                out.fail('fire/far-from-any-moment',
                         f'{tag} queued at {when.isoformat()}; its moments '
                         f'are {ms}')
        for tag in sorted({t for t, m in events if m.get('boot')}):
            others = [m for t, m in events if t == tag and not m.get('boot')]
            mine = [f for f in fired if f[1] == tag]
            if not mine or mine[0][0] != start:
                out.fail('boot/not-fired-at-boot',
                         f'{tag}: fired {[f[0].isoformat() for f in mine]}')
            if len(mine) > 1 and not others:
                out.fail('boot/fired-more-than-once'
                         + ('@after-reload' if reloads else ''),
                         f'{tag} has only boot events, fired '
                         f'{[f[0].isoformat() for f in mine]}')
            out.label('has-boot-event')
        # every matching moment M in (start+5min, end) needs a firing in
        # [M-301s, M+1d]
        for tag, m in events:
            if m.get('boot') or 'day' in m:
                if 'day' in m:
                    out.label('has-date-event')
                continue
            due = []
            c = next_match(m, start + datetime.timedelta(seconds=302))
            while c <= end - datetime.timedelta(seconds=2):
                due.append(c)
                c = next_match(m, c + datetime.timedelta(seconds=1))
            if due:
                out.nontrivial = True
                out.label('event-came-due')
            if len(due) >= 2:
                out.label('spans>=2-periods')
            for M in due:
                hit = [f for f in fired if f[1] == tag and
                       M - datetime.timedelta(seconds=301) <= f[0]
                       <= M + datetime.timedelta(days=1)]
                if hit:
                    continue
                # workers always answer, so a node that fired earlier has
                # completed that run before M
                earlier = [f for f in fired if f[1] == tag and
                           f[0] < M - datetime.timedelta(seconds=301)]
                site = ('node-ran-before' if earlier else 'node-never-ran')
                out.fail(
                    f'recurrence/moment-missed@{site}',
                    f'{tag} {m}: up {start.isoformat()}..{end.isoformat()}, '
                    f'no firing for {M.isoformat()}; fired '
                    f'{[f[0].isoformat() for f in fired if f[1] == tag]}',
                )
                break
        for e in s.errors:
            if e[0] == 'exception':
                out.fail('farm/swallowed-exception', str(e))
        out.label(f'events-{min(len(events), 3)}')
    finally:
        reactor.callLater = real_call_later
        sched.defer = real_defer
        s.close()
    return out


_START_DAYS = [
    (2024, 1, 29), (2024, 2, 26), (2024, 2, 28), (2024, 3, 1), (2024, 3, 30),
    (2024, 4, 29), (2024, 12, 28), (2025, 1, 30), (2025, 2, 27), (2024, 6, 10),
]


@st.composite
def _histories(draw):
    spec = draw(engines.specs(max_algs=4, max_pkgs=2, events=True,
                              feedback=False, twins=True))
    for a in spec['algs']:
        # twins both get events (classes of one name in two modules)
        if a.get('twin') is not None:
            for x in (a, spec['algs'][a['twin']]):
                if not x['events']:
                    x['events'] = draw(
                        st.lists(engines._moment, min_size=1, max_size=2))
    # make sure there is at least one event, by construction
    if not any(a['events'] for a in spec['algs']):
        i = draw(st.integers(0, len(spec['algs']) - 1))
        spec['algs'][i]['events'] = draw(
            st.lists(engines._moment, min_size=1, max_size=2))
    if draw(st.integers(0, 2)) == 0:
        # a family of boot events, preferably on namesakes in other packages
        idx = draw(st.lists(st.integers(0, len(spec['algs']) - 1),
                            unique=True, min_size=1, max_size=3))
        first = spec['algs'][idx[0]]
        for i in idx:
            a = spec['algs'][i]
            if {'boot': True} not in a['events']:
                a['events'] = a['events'] + [{'boot': True}]
            taken = {b['name'] for b in spec['algs'] if b['pkg'] == a['pkg']}
            if a is not first and first['name'] not in taken:
                a['name'] = first['name']
    if spec['style'] == 'registry':
        for pi in {a['pkg'] for a in spec['algs'] if a['events']}:
            if 'events' not in spec['placeholders'][pi]:
                spec['placeholders'][pi] = sorted(
                    spec['placeholders'][pi] + ['events'])
    y, mo, d = draw(st.sampled_from(_START_DAYS))
    h, mi, sec = draw(_time)
    op = st.one_of(
        st.tuples(st.just('adv'), st.sampled_from(
            [60, 3600, 7200, 43200, 86400, 86400, 3 * 86400, 7 * 86400,
             7 * 86400, 8 * 86400, 31 * 86400])).map(list),
        st.tuples(st.just('adv'), st.integers(1, 40 * 86400)).map(list),
        st.tuples(st.just('tgt'), st.integers(0, 3)).map(list),
        st.just(['reload']),
    )
    return {
        'spec': spec,
        'targets': draw(st.lists(st.sampled_from(sim.TARGET_POOL[:3]),
                                 unique=True, min_size=1, max_size=3)),
        'start': [y, mo, d, h, mi, sec],
        'ops': draw(st.lists(op, min_size=2, max_size=12)),
    }


# --------------------------------------------------------------------------
# grow: an update adds modules while the process - and the scanner's
# registry of per-task factories - lives on


_GROW_ROOT = """
import dawgie


class Value(dawgie.Value):
    def __init__(self, content=None):
        dawgie.Value.__init__(self)
        self.content = content
        self._version_ = dawgie.VERSION(1, 0, 0)

    def features(self):
        return []


class StateVector(dawgie.StateVector):
    def __init__(self):
        dawgie.StateVector.__init__(self)
        self['item'] = Value(None)
        self._version_ = dawgie.VERSION(1, 0, 0)

    def name(self):
        return 'sv'

    def view(self, _caller, visitor):
        return
"""

_GROW_TASK = """
import dawgie
import dawgie.base


def analysis(
    prefix: str, ps_hint: int = 0, runid: int = -1
) -> dawgie.FactoryPlaceholder[dawgie.base.Analysis]:
    raise NotImplementedError('placeholder until dawgie monkey patches me')


def events() -> dawgie.FactoryPlaceholder[list[dawgie.EVENT]]:
    raise NotImplementedError('placeholder until dawgie monkey patches me')


def regress(
    prefix: str, ps_hint: int = 0, target: str = '__none__'
) -> dawgie.FactoryPlaceholder[dawgie.base.Regress]:
    raise NotImplementedError('placeholder until dawgie monkey patches me')


def task(
    prefix: str, ps_hint: int = 0, runid: int = -1, target: str = '__none__'
) -> dawgie.FactoryPlaceholder[dawgie.base.Task]:
    raise NotImplementedError('placeholder until dawgie monkey patches me')
"""

_GROW_ALG = """
import datetime
import dawgie
import {pkg}


class {cls}(dawgie.Algorithm):
    DAWGIE_SCHEDULE = [{sched}]

    def __init__(self):
        dawgie.Algorithm.__init__(self)
        self.__sv = {pkg}.StateVector()
        self._version_ = dawgie.VERSION(1, 0, 0)

    def name(self):
        return '{name}'

    def previous(self):
        return []

    def run(self, ds, ps):
        ds.update()

    def state_vectors(self):
        return [self.__sv]
"""

_GROW_SEQ = [0]


def _grow_moment(m):
    if m.get('boot'):
        return 'dawgie.schedule(None, None, boot=True)'
    t = 'datetime.time({}, {}, {})'.format(*m['time'])
    if 'dow' in m:
        return f'dawgie.schedule(None, None, dow={m["dow"]}, time={t})'
    if 'dom' in m:
        return f'dawgie.schedule(None, None, dom={m["dom"]}, time={t})'
    return ('dawgie.schedule(None, None, day=datetime.date({}, {}, {}), '
            'time={})'.format(*m['day'], t))


def exec_grow(case):
    """the pipeline loads (scan.for_factories -> schedule.build ->
    schedule.periodics), an update adds new modules - to task packages that
    exist already or to new ones -, and the pipeline loads again in the same
    process as FSM._pipeline does, i.e. without scan.reset: the registry of
    per-task Factories objects survives.  After every load the timer table
    must hold exactly the declared events of every algorithm in the tree and a
    boot event that is new must have queued its algorithm for every known
    target.  Then the same is asked of dawgie.base.Factories directly: what
    events() answers is a function of the classes added so far, whenever it
    was asked before."""
    import importlib
    import os
    import sys
    import warnings

    import dawgie
    import dawgie.base
    import dawgie.context
    import dawgie.pl.scan
    import dawgie.pl.schedule as sched
    import twisted.internet.reactor as reactor

    out = core.Outcome()
    _GROW_SEQ[0] += 1
    pkg = f'vfc20g{_GROW_SEQ[0]}'
    root = world.fresh_dir('c20grow')
    ae = os.path.join(root, pkg)

    def put(path, text):
        os.makedirs(os.path.dirname(path), exist_ok=True)
        with open(path, 'wt', encoding='utf-8') as f:
            f.write(text)

    put(os.path.join(ae, '__init__.py'), _GROW_ROOT)
    declared = {}  # tag -> moments
    serial = [0]
    classes = []  # (module name, class name, moments)

    def add_module(m):
        serial[0] += 1
        k = serial[0]
        task = f't{m["pkg"]}'
        init = os.path.join(ae, task, '__init__.py')
        if not os.path.exists(init):
            put(init, _GROW_TASK)
            out.label('new-task-package' if k > n_first else 'task-package')
        elif k > n_first:
            out.label('new-module-in-existing-task')
            if m['events']:
                out.nontrivial = True
                out.label('scheduled-algorithm-joins-existing-task')
        put(os.path.join(ae, task, f'mod{k}.py'), _GROW_ALG.format(
            pkg=pkg, cls=f'Alg{k}', name=f'a{k}',
            sched=', '.join(_grow_moment(e) for e in m['events'])))
        classes.append((f'{pkg}.{task}.mod{k}', f'Alg{k}', m['events']))
        if m['events']:
            declared[f'{task}.a{k}'] = m['events']
        return f'{task}.a{k}'

    n_first = len(case['first'])
    saved = (dawgie.context.ae_base_path, dawgie.context.ae_base_package,
             dawgie.context.db_impl)
    real_call_later = reactor.callLater
    real_dt = sched.datetime
    db = world.StubDB()
    db.target_list = list(case['targets'])
    sys.path.insert(0, root)
    try:
        db.install()
        dawgie.context.ae_base_path = ae
        dawgie.context.ae_base_package = pkg
        reactor.callLater = lambda *a, **k: None
        sched.datetime = world.fake_datetime_module(world.Clock(
            datetime.datetime(2024, 6, 10, 12, 0, 0, tzinfo=UTC)))
        dawgie.pl.scan.reset(pkg)
        sched.booted.clear()

        def load(where, fresh):
            importlib.invalidate_caches()
            try:
                with warnings.catch_warnings():
                    warnings.simplefilter('ignore')
                    facs = dawgie.pl.scan.for_factories(ae, pkg)
                    sched.build(facs, [{}, {}, {}], [{}, {}, {}, {}])
                    sched.periodics(facs[dawgie.Factories.events])
            except Exception as exc:  # pylint: disable=broad-except
                out.failures.append(core.crash_failure(exc, f'grow {where}'))
                return False
            names = {}
            for fe in facs[dawgie.Factories.events]:
                for e in fe():
                    an = '.'.join([dawgie.util.task_name(e.algref.factory),
                                   e.algref.impl.name()])
                    names[an] = names.get(an, 0) + 1
            want = {t: len(ms) for t, ms in declared.items()}
            if names != want:
                out.fail('grow/events-factory-differs-from-declared',
                         f'{where}: the events factories answer {names}, '
                         f'the tree declares {want}')
            per = {}
            for n in sched.per:
                per[n.tag] = len(n.get('period'))
            if per != want:
                out.fail('grow/timer-table-differs-from-declared',
                         f'{where}: schedule.per holds {per} (events per '
                         f'node), the tree declares {want}')
            have = set(sched.tasks())
            gone = sorted(t for t in all_tags if t not in have)
            if gone:
                out.fail('grow/algorithm-not-in-graph',
                         f'{where}: {gone} missing from {sorted(have)}')
            qd = {j.tag: set(j.get('todo')) for j in sched.que}
            for t in fresh:
                if any(m.get('boot') for m in declared.get(t, [])):
                    out.label('new-boot-event')
                    if qd.get(t) != set(case['targets']):
                        out.fail('grow/new-boot-event-not-queued',
                                 f'{where}: {t} queued {qd.get(t)}, known '
                                 f'targets {case["targets"]}')
            return True

        all_tags = [add_module(m) for m in case['first']]
        ok = load('first load', list(all_tags))
        for ui, upd in enumerate(case['updates']):
            if not ok or out.failures:
                break
            fresh = [add_module(m) for m in upd]
            all_tags.extend(fresh)
            ok = load(f'load after update {ui + 1}', fresh)
        # ---- the same without the scanner
        if ok and not out.failures:
            mods = {mn: importlib.import_module(mn) for mn, _c, _e in classes}
            fac = dawgie.base.Factories('t')
            expect = 0
            asked = False
            added = set()
            for op in case['algebra']:
                if op == 'ask' or op >= len(classes):
                    got = len(fac.events())
                    if asked:
                        out.label('events-asked-between-adds')
                    asked = True
                    if got != expect:
                        out.fail('grow/factories-events-forgets-an-add',
                                 f'after {case["algebra"]}: events() has '
                                 f'{got} entries, the added classes declare '
                                 f'{expect}')
                        break
                else:
                    mn, cn, evs = classes[op]
                    if (mn, cn) not in added:
                        expect += len(evs)
                        added.add((mn, cn))
                    fac.add(getattr(mods[mn], cn))
            if len(fac.events()) != expect:
                out.fail('grow/factories-events-forgets-an-add',
                         f'after {case["algebra"]}: events() has '
                         f'{len(fac.events())} entries, expected {expect}')
    finally:
        reactor.callLater = real_call_later
        sched.datetime = real_dt
        sched.booted.clear()
        sched.que = []
        sched.per = []
        dawgie.pl.scan.reset(pkg)
        for k in [k for k in sys.modules
                  if k == pkg or k.startswith(pkg + '.')]:
            del sys.modules[k]
        if root in sys.path:
            sys.path.remove(root)
        (dawgie.context.ae_base_path, dawgie.context.ae_base_package,
         dawgie.context.db_impl) = saved
        world.rm(root)
    return out


_grow_events = st.one_of(
    st.just([]), st.lists(engines._moment, min_size=1, max_size=2))
_grow_mod = st.fixed_dictionaries({'pkg': st.integers(0, 2),
                                   'events': _grow_events})
_grow_case = st.fixed_dictionaries({
    'first': st.lists(_grow_mod, min_size=1, max_size=3),
    'updates': st.lists(st.lists(_grow_mod, min_size=1, max_size=2),
                        min_size=1, max_size=3),
    'targets': st.lists(st.sampled_from(sim.TARGET_POOL[:3]), unique=True,
                        min_size=1, max_size=3),
    'algebra': st.lists(st.one_of(st.just('ask'), st.integers(0, 5)),
                        min_size=2, max_size=8),
})


def parts(tier):
    q = tier == 'quick'
    return [
        core.Part('grid', exec_delay, enum=_grid(q), exhaustive=True,
                  enum_note=(
                      'dom 1..31 and dow 0..6 x times of day x days of '
                      '2023-2028 ' + ('within 3 days of a month end or the '
                                      '15th' if q else '(every day)')
                      + ' x 3 instants per day')),
        core.Part('random', exec_delay, strategy=_random_case,
                  cases=8000 if q else 400000, batch=1000),
        core.Part('accepted', exec_accepted, strategy=_accepted_case,
                  cases=1200 if q else 30000, batch=300),
        core.Part('history', exec_history, strategy=_histories(),
                  cases=320 if q else 12000, batch=40),
        core.Part('grow', exec_grow, strategy=_grow_case,
                  cases=240 if q else 12000, batch=40),
    ]
