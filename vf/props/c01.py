'''C01 - upstream work always finishes before dependent work is released.'''

from .. import core, sim

ID = 'C01'
LEVEL = 'exploration'
RULE = (
    'Generated: acyclic engine spec (<=6 algorithms, all kinds, diamonds and '
    'multi-level references frequent) x 0-3 targets x history of 4-40 '
    'operations over the real schedule+farm (run requests, re-requests of '
    'pending/executing units, version-bump build, dispatch ticks, worker '
    'joins, replies in any order with success and any subset of values new / '
    'failure / invalid). Oracle at every release: no reference ancestor has '
    'the target or an all-targets run pending (node todo + view_todo) or '
    'executing (harness ground truth: released and unanswered). Non-trivial: '
    'some release happens while another unit is in flight and the engine has '
    'a dependency path of length >= 2. Distinct = SHA-1 of case JSON.'
    ' Parts faults / retry: db.next() fails once on the first to third job '
    'of a batch; units the farm holds for its retry are judged when the sch'
    'eduler released them. '
    ' Part cluster: replies produced by real workers (worker.cluster.execut'
    'e on a real store). '
)
ASSUMPTIONS = [
    'workers answer only tasks they were handed, at most once',
    'life-cycle active (FSM stand-in); stub database; promotion disabled',
    'ancestors are taken from the reference graph of the spec, never from '
    'dag.Construct (C09 checks that graph separately)',
]


class _Held:
    '''a unit the scheduler released in a dispatch that failed before the
    farm made its message (injected database fault): it is released *now*,
    its message follows in a later dispatch'''

    def __init__(self, key):
        self.jobid, self.target = key

    def __repr__(self):
        return f'{self.jobid}[{self.target}] (held by the farm for a retry)'


def check_event(s, ev, out):
    held = s.__dict__.setdefault('_c01_held', set())
    released = []
    if ev['op'][0] == 'tick':
        for key in sorted(s.limbo() - held):
            released.append(_Held(key))
        for u in ev.get('released') or ():
            if u.key in held and u.key not in s.limbo():
                continue  # judged when the scheduler released it
            released.append(u)
        held.clear()
        held.update(s.limbo())
    if released:
        view = {d['name']: set(d['targets']) for d in s.sched.view_todo()}
        others = [u for u in s.inflight() if u not in released]
        if (others or len(released) > 1) and s.ref.max_depth() >= 2:
            out.nontrivial = True
            out.label('release-while-others-in-flight')
        if any(isinstance(u, _Held) for u in released):
            out.label('released-by-a-dispatch-that-failed-half-way')
        for u in released:
            for a in sorted(s.ref.ancestors[u.jobid]):
                pend = s.todo(a) | view.get(a, set())
                execu = s.executing(a)
                busy = pend | execu
                bad = None
                if u.target == '__all__':
                    if busy:
                        bad = sorted(busy)
                elif u.target in busy or '__all__' in busy:
                    bad = sorted(busy & {u.target, '__all__'})
                if bad:
                    kind = 'executing' if set(bad) & execu else 'pending'
                    if kind == 'executing' and all(
                        (a, t) in s.lost_keys for t in bad
                    ) and not set(bad) & pend:
                        kind += '@doing-cleared-by-upstream-purge'
                    out.fail(
                        f'release/upstream-{kind}',
                        f'{u} released at step {ev["step"]} while upstream {a} '
                        f'has {bad} (pending={sorted(pend)} '
                        f'executing={sorted(execu)} doing-bookkeeping='
                        f'{sorted(s.doing(a))})',
                    )
                    return
    if s.ref.has_diamond():
        out.label('diamond')
    for e in ev['errors']:
        if e[0] == 'exception':
            out.fail('farm/swallowed-exception', f'{e} op={ev["op"]}')


def execute(case):
    return sim.run_history(case, check_event, pid=ID)


def _cluster():
    '''replies produced by real workers (worker.cluster.execute in process on
    a real store), see C05'''
    from .c05 import _cluster_cases

    return _cluster_cases()


def _retry_cases():
    '''a full run worked off round by round (dispatch, some replies); in
    some rounds the run-ID request of the first, second or third job of the
    batch fails, and before the farm retries an upstream algorithm of
    something in flight is requested again'''
    from hypothesis import strategies as st

    from .. import engines

    @st.composite
    def build(draw):
        spec = draw(engines.specs(
            max_algs=6, max_pkgs=2, min_algs=3,
            kinds=('task', 'task', 'analysis', 'analysis', 'regress')))
        targets = draw(st.lists(st.sampled_from(sim.TARGET_POOL[:3]),
                                unique=True, min_size=1, max_size=2))
        ops = [['reqall']]
        for _ in range(draw(st.integers(2, 8))):
            fault = draw(st.integers(0, 2)) == 0
            if fault:
                ops.append(['dbfault', draw(st.sampled_from([0, 1, 1, 2]))])
            ops.append(['tick'])
            if fault or draw(st.integers(0, 3)) == 0:
                ops.append(['requp', draw(st.integers(0, 7))])
            for _ in range(draw(st.integers(0, 3))):
                ops.append(['rep', draw(st.integers(0, 3)),
                            draw(st.sampled_from([0, 0, 0, 1])),
                            draw(st.sampled_from([0, 4095, 5])), 0])
        ops += [['tick'], ['tick']]
        return {'spec': spec, 'targets': targets, 'bumped': [],
                'workers': draw(st.sampled_from([2, 4, 6])), 'ops': ops,
                'seg': 0}

    return build()


def parts(tier):
    q = tier == 'quick'
    return [
        core.Part(
            'history', execute,
            strategy=sim.histories(weights={'rereq': 2},
                                   spec_kw={'min_algs': 2}),
            cases=1600 if q else 50000, batch=200,
        ),
        core.Part(
            'faults', execute,
            strategy=sim.histories(
                weights={'rereq': 2, 'dbfault': 3, 'requp': 3},
                spec_kw={'min_algs': 2,
                         'kinds': ('task', 'task', 'analysis', 'analysis',
                                   'regress')}),
            cases=400 if q else 12500, batch=200,
        ),
        core.Part('cluster', execute, strategy=_cluster(),
                  cases=120 if q else 3000, batch=40),
        core.Part('retry', execute, strategy=_retry_cases(),
                  cases=600 if q else 15000, batch=200),
        core.Part(
            'timers', execute,
            strategy=sim.histories(weights={'rereq': 2, 'timer': 8},
                                   spec_kw={'min_algs': 2, 'events': True}),
            cases=400 if q else 12500, batch=200,
        ),
    ]
