'''C01 - upstream work always finishes before dependent work is released.'''

from .. import core, sim

ID = 'C01'
LEVEL = 'exploration'
RULE = (
    'Generated: acyclic engine spec (<=6 algorithms, all kinds, diamonds and '
    'multi-level references frequent) x 0-3 targets x history of 4-40 '
    'operations over the real schedule+farm (run requests, re-requests of '
    'pending/executing units, version-bump build, dispatch ticks, worker '
    'joins, replies in any order with success and any subset of values new / '
    'failure / invalid). Oracle at every release: no reference ancestor has '
    'the target or an all-targets run pending (node todo + view_todo) or '
    'executing (harness ground truth: released and unanswered). Non-trivial: '
    'some release happens while another unit is in flight and the engine has '
    'a dependency path of length >= 2. Distinct = SHA-1 of case JSON.'
)
ASSUMPTIONS = [
    'workers answer only tasks they were handed, at most once',
    'life-cycle active (FSM stand-in); stub database; promotion disabled',
    'ancestors are taken from the reference graph of the spec, never from '
    'dag.Construct (C09 checks that graph separately)',
]


def check_event(s, ev, out):
    if ev['op'][0] == 'tick' and ev.get('released'):
        view = {d['name']: set(d['targets']) for d in s.sched.view_todo()}
        others = [u for u in s.inflight() if u not in ev['released']]
        if (others or len(ev['released']) > 1) and s.ref.max_depth() >= 2:
            out.nontrivial = True
            out.label('release-while-others-in-flight')
        for u in ev['released']:
            for a in sorted(s.ref.ancestors[u.jobid]):
                pend = s.todo(a) | view.get(a, set())
                execu = s.executing(a)
                busy = pend | execu
                bad = None
                if u.target == '__all__':
                    if busy:
                        bad = sorted(busy)
                elif u.target in busy or '__all__' in busy:
                    bad = sorted(busy & {u.target, '__all__'})
                if bad:
                    kind = 'executing' if set(bad) & execu else 'pending'
                    if kind == 'executing' and all(
                        (a, t) in s.lost_keys for t in bad
                    ) and not set(bad) & pend:
                        kind += '@doing-cleared-by-upstream-purge'
                    out.fail(
                        f'release/upstream-{kind}',
                        f'{u} released at step {ev["step"]} while upstream {a} '
                        f'has {bad} (pending={sorted(pend)} '
                        f'executing={sorted(execu)} doing-bookkeeping='
                        f'{sorted(s.doing(a))})',
                    )
                    return
    if s.ref.has_diamond():
        out.label('diamond')
    for e in ev['errors']:
        if e[0] == 'exception':
            out.fail('farm/swallowed-exception', f'{e} op={ev["op"]}')


def execute(case):
    return sim.run_history(case, check_event, pid=ID)


def parts(tier):
    q = tier == 'quick'
    return [
        core.Part(
            'history', execute,
            strategy=sim.histories(weights={'rereq': 2},
                                   spec_kw={'min_algs': 2}),
            cases=1600 if q else 50000, batch=200,
        ),
        core.Part(
            'faults', execute,
            strategy=sim.histories(
                weights={'rereq': 2, 'dbfault': 3, 'requp': 3},
                spec_kw={'min_algs': 2,
                         'kinds': ('task', 'task', 'analysis', 'analysis',
                                   'regress')}),
            cases=400 if q else 12500, batch=200,
        ),
        core.Part(
            'timers', execute,
            strategy=sim.histories(weights={'rereq': 2, 'timer': 8},
                                   spec_kw={'min_algs': 2, 'events': True}),
            cases=400 if q else 12500, batch=200,
        ),
    ]
