'''Shared data types, hashing, known-findings matching and the Hypothesis driver.

Every property module under vf/props exposes

    ID, LEVEL, RULE, ASSUMPTIONS
    parts(tier) -> [Part]

A Part is one stream of generated cases with its own budget.  A case is plain
JSON-able data; ``Part.execute(case)`` runs the real DAWGIE code on it and
returns an Outcome.  Nothing in here knows about DAWGIE.
'''

import dataclasses
import hashlib
import json
import os
import time
import traceback
import typing

VERIF = os.path.dirname(os.path.dirname(os.path.abspath(__file__)))
REPO = os.environ.get('VERIF_REPO', '/repo')
REPO_PY = os.path.join(REPO, 'Python')


@dataclasses.dataclass
class Failure:
    bucket: str  # '<predicate>/<site>' -- the root-cause key
    detail: str


@dataclasses.dataclass
class Outcome:
    failures: list = dataclasses.field(default_factory=list)
    nontrivial: bool = False
    labels: list = dataclasses.field(default_factory=list)

    def fail(self, bucket, detail=''):
        self.failures.append(Failure(bucket, str(detail)[:2000]))

    def label(self, *names):
        for n in names:
            if n not in self.labels:
                self.labels.append(n)


@dataclasses.dataclass
class Part:
    name: str
    execute: typing.Callable
    strategy: typing.Any = None  # hypothesis strategy (lazy callable ok)
    enum: typing.Callable = None  # callable() -> iterable of cases
    cases: int = 0  # budget for the strategy stream (total over shards)
    batch: int = 200
    exhaustive: bool = False  # enum covers a finite space completely
    enum_note: str = ''


class Violation(Exception):
    pass


class StopShrink(BaseException):
    pass


class HarnessError(Exception):
    pass


def canon(case) -> str:
    return json.dumps(case, sort_keys=True, separators=(',', ':'), default=str)


def case_hash(case) -> str:
    return hashlib.sha1(canon(case).encode()).hexdigest()[:16]


def derive(seed: int, *salt) -> int:
    h = hashlib.sha256(repr((int(seed),) + tuple(salt)).encode()).digest()
    return int.from_bytes(h[:8], 'big')


# --------------------------------------------------------------------------
# known findings


def load_findings():
    fn = os.path.join(VERIF, 'known_findings.json')
    if not os.path.isfile(fn):
        return []
    with open(fn, 'rt', encoding='utf-8') as f:
        return json.load(f).get('findings', [])


_FINDINGS = None


def known_finding(pid: str, bucket: str):
    '''return the entry when (property, bucket) is a listed *known* finding'''
    global _FINDINGS  # pylint: disable=global-statement
    if os.environ.get('VERIF_IGNORE_KNOWN'):
        return None  # development aid: re-derive replays of known findings
    if _FINDINGS is None:
        _FINDINGS = load_findings()
    for f in _FINDINGS:
        if (
            f.get('status') == 'known'
            and f.get('property') == pid
            and f.get('bucket') == bucket
        ):
            return f
    return None


# --------------------------------------------------------------------------
# crash classification


def innermost_repo_frame(exc: BaseException):
    '''(file:func:line) of the innermost frame under the tree being tested'''
    tb = traceback.extract_tb(exc.__traceback__)
    site = None
    for fr in tb:
        if fr.filename.startswith(REPO_PY):
            site = (os.path.relpath(fr.filename, REPO_PY), fr.name, fr.lineno)
    return site


def crash_failure(exc: BaseException, where: str = '') -> Failure:
    '''An exception escaped the code under test on a valid case.

    If the innermost frame belongs to /repo/Python the code under test
    raised and the stated behaviour did not take place -> violation bucket
    "crash/...".  Otherwise it is a harness problem and is re-raised.
    '''
    site = innermost_repo_frame(exc)
    if site is None:
        raise HarnessError(
            f'harness exception {where}: {type(exc).__name__}: {exc}'
        ) from exc
    return Failure(
        f'crash/{type(exc).__name__}@{site[0]}:{site[1]}',
        f'{where} raised {type(exc).__name__}: {exc} at {site[0]}:{site[2]}',
    )


# --------------------------------------------------------------------------
# per-shard statistics


class Stats:
    def __init__(self, pid):
        self.pid = pid
        self.parts = {}
        self.failure = None  # dict(part, bucket, detail, case, first_case)
        self.known = {}  # bucket -> count
        self.t_fail = None
        self.time_capped = False

    def part(self, name):
        if name not in self.parts:
            self.parts[name] = {
                'evaluations': 0,
                'nontrivial': set(),
                'labels': {},
                'samples': [],
                'exhaustive_done': False,
            }
        return self.parts[name]

    def as_json(self):
        out = {
            'parts': {},
            'failure': self.failure,
            'known': self.known,
            'time_capped': self.time_capped,
        }
        for k, v in self.parts.items():
            out['parts'][k] = {
                'evaluations': v['evaluations'],
                'nontrivial': sorted(v['nontrivial']),
                'labels': v['labels'],
                'samples': v['samples'],
                'exhaustive_done': v['exhaustive_done'],
            }
        return out


class CaseHang(Exception):
    '''a single case burnt CASE_LIMIT seconds of CPU in this process (cases
    take milliseconds to a few seconds): the code under test does not
    terminate on this input.  CPU time of the process, not wall-clock time:
    a loaded machine or a slow child process cannot trip it.'''


CASE_LIMIT = float(os.environ.get('VERIF_CASE_LIMIT', '900'))


def _hang(_sig, _frame):
    raise CaseHang(f'no result after {CASE_LIMIT:.0f} s of CPU time')


def run_one(part: Part, case, stats: Stats, counting=True):
    '''execute one case; update stats; raise Violation on an unlisted failure'''
    import signal
    import threading

    watch = threading.current_thread() is threading.main_thread()
    if watch:
        old = signal.signal(signal.SIGVTALRM, _hang)
        signal.setitimer(signal.ITIMER_VIRTUAL, CASE_LIMIT)
    try:
        out = part.execute(case)
    except HarnessError:
        raise
    except Violation:
        raise
    except Exception as exc:  # pylint: disable=broad-except
        out = Outcome()
        out.failures.append(crash_failure(exc, f'{stats.pid}/{part.name}'))
    finally:
        if watch:
            signal.setitimer(signal.ITIMER_VIRTUAL, 0)
            signal.signal(signal.SIGVTALRM, old)
    p = stats.part(part.name)
    shrinking = stats.failure is not None
    if counting and not shrinking:
        p['evaluations'] += 1
        for lab in out.labels:
            p['labels'][lab] = p['labels'].get(lab, 0) + 1
        if out.nontrivial:
            h = case_hash(case)
            if h not in p['nontrivial']:
                p['nontrivial'].add(h)
                if len(p['samples']) < 3:
                    p['samples'].append(case)
    unknown = []
    for f in out.failures:
        if known_finding(stats.pid, f.bucket):
            if not shrinking:
                stats.known[f.bucket] = stats.known.get(f.bucket, 0) + 1
        else:
            unknown.append(f)
    if unknown:
        f = unknown[0]
        first = stats.failure['first_case'] if stats.failure else case
        stats.failure = {
            'part': part.name,
            'bucket': f.bucket,
            'detail': f.detail,
            'all': [[u.bucket, u.detail] for u in unknown[:5]],
            'case': case,
            'first_case': first,
        }
        if stats.t_fail is None:
            stats.t_fail = time.time()
        raise Violation(f'{f.bucket}: {f.detail}')
    return out


def drive_strategy(part: Part, n_cases, seed, stats, deadline, shrink_s):
    '''run a Hypothesis campaign of about n_cases cases in seeded batches'''
    import hypothesis  # pylint: disable=import-outside-toplevel
    from hypothesis import HealthCheck, Phase, given, settings

    strategy = part.strategy() if callable(part.strategy) else part.strategy
    nb = max(1, (n_cases + part.batch - 1) // part.batch)
    done = 0
    for b in range(nb):
        if stats.failure is not None:
            break
        if time.time() > deadline:
            stats.time_capped = True
            break
        this = min(part.batch, n_cases - done)
        if this <= 0:
            break

        def body(case):
            if stats.t_fail is not None and (
                time.time() - stats.t_fail > shrink_s
            ):
                raise StopShrink()
            run_one(part, case, stats)

        test = given(strategy)(body)
        test = settings(
            max_examples=this,
            database=None,
            deadline=None,
            derandomize=False,
            report_multiple_bugs=False,
            print_blob=False,
            suppress_health_check=[
                HealthCheck.too_slow,
                HealthCheck.data_too_large,
                HealthCheck.large_base_example,
            ],
            phases=[Phase.generate, Phase.target, Phase.shrink],
        )(test)
        test = hypothesis.seed(derive(seed, part.name, b))(test)
        before = stats.part(part.name)['evaluations']
        try:
            test()
        except StopShrink:
            pass
        except Violation:
            pass
        except HarnessError:
            raise
        except BaseException:  # pylint: disable=broad-except
            if stats.failure is None:
                raise
        done += max(stats.part(part.name)['evaluations'] - before, 1)
    return


def drive_enum(part: Part, shard, nshards, stats, deadline):
    complete = True
    for i, case in enumerate(part.enum()):
        if i % nshards != shard:
            continue
        if time.time() > deadline:
            stats.time_capped = True
            complete = False
            break
        try:
            run_one(part, case, stats)
        except Violation:
            complete = False
            break
    stats.part(part.name)['exhaustive_done'] = complete and part.exhaustive
