'''Pipeline simulator (DESIGN.md 3.4): the real dawgie.pl.schedule + dag + farm
over a generated engine; workers, replies, clock and life-cycle are owned by
the harness.  A history is a list of plain-data operations.

Ground truth kept here, independent of the scheduler's own bookkeeping:
  released  a task message was created for the unit (farm._put was called)
  handed    the task message appeared on a worker transport
  in flight released and its reply not yet delivered
'''

import contextlib
import datetime
import os
import warnings

from hypothesis import strategies as st

from . import core, engines, rig, world

# one name is a substring of the all-targets marker, one carries a sub-target
TARGET_POOL = ['T1', 'a', 'T3', 'HD 4 (b)']
OUTCOMES = ['success', 'failure', 'invalid']


class FakeFSM:
    '''three-method stand-in for dawgie.pl.state.FSM (life-cycle is C10-C12)'''

    def __init__(self):
        self.active = True
        self.crew_wait = False
        self.archives = 0
        self.archive_blocks = False
        self.state = 'running'

    def is_pipeline_active(self):
        return self.active

    def waiting_on_crew(self):
        return self.crew_wait

    def archiving_trigger(self):
        import dawgie.pl.farm as farm

        self.archives += 1
        if self.archive_blocks:
            # C11: the pipeline is not active until the archive is done
            self.active = False
            self.state = 'archiving'
        else:
            farm.ARCHIVE = False

    def archive_done(self):
        import dawgie.pl.farm as farm

        if self.state == 'archiving':
            farm.ARCHIVE = False
            self.active = True
            self.state = 'running'


class Unit:
    __slots__ = ('seq', 'jobid', 'target', 'runid', 'step', 'handed',
                 'worker', 'answered', 'msg', 'lost')

    def __init__(self, seq, jobid, target, runid, step):
        self.seq = seq
        self.jobid = jobid
        self.target = target  # '__all__' for analyses
        self.runid = runid
        self.step = step
        self.handed = False
        self.worker = None
        self.answered = False
        self.msg = None
        # an upstream failure purged this executing unit from the 'doing'
        # bookkeeping of its job (known finding, see DESIGN.md section 6)
        self.lost = False

    @property
    def key(self):
        return (self.jobid, self.target)

    def __repr__(self):
        return f'{self.jobid}[{self.target}]#{self.runid}'


class Worker:
    def __init__(self, sock, rev_ok, host):
        self.sock = sock
        self.hand = sock.proto
        self.rev_ok = rev_ok
        self.host = host
        self.seen = 0  # frames already interpreted
        self.closed = False
        self.got_task = None
        self.aborted = False
        self.tasks = 0

    def drop(self, clean=True):
        if not self.closed:
            self.closed = True
            self.sock.close(clean)


def reset_world():
    '''module-level state of schedule/farm back to "just imported"'''
    import dawgie.context
    import dawgie.pl.farm as farm
    import dawgie.pl.schedule as sched

    sched.que = []
    sched.per = []
    sched.booted.clear()
    sched.err.clear()
    sched.suc.clear()
    sched.pipeline_paused = False
    sched.promote.clear()
    farm.clear()
    farm._reject.clear()
    farm._repeat.clear()
    farm._agency[0] = None
    farm.insights = {}
    farm.ARCHIVE = False
    dawgie.context.allow_promotion = False
    dawgie.context.db_lock = False


class RealDB:
    '''the StubDB surface backed by the real shelve store'''

    def __init__(self, store):
        self.store = store
        self.next_calls = 0
        self.issued = []
        import dawgie.db.shelve as shelve_impl

        self._impl = shelve_impl
        self._real_next = shelve_impl.next
        me = self

        def counted_next():
            me.next_calls += 1
            r = me._real_next()
            me.issued.append(r)
            return r

        shelve_impl.next = counted_next

    @property
    def target_list(self):
        return [t for t in self.store.db.targets() if t != '__all__']

    def _add(self, name):
        return self.store.db.add(name)

    def restore(self):
        self._impl.next = self._real_next


class Sim:
    # pylint: disable=too-many-instance-attributes,too-many-public-methods
    def __init__(self, spec, targets, bumped=(), auto_workers=0, rev='rev-0',
                 clock=None, real_store=False, timers=False):
        import dawgie
        import dawgie.context
        import dawgie.pl.farm as farm
        import dawgie.pl.logger.chronicle as chron
        import dawgie.pl.schedule as sched
        import dawgie.pl.version

        self.farm, self.sched, self.chron = farm, sched, chron
        self.spec = spec
        self.stack = contextlib.ExitStack()
        self.step = 0
        self.units = []  # every release, in order
        self.workers = []
        self.log = []  # history events (dicts)
        self.calls = []  # spy records of the current op
        self.errors = []  # swallowed exceptions reported through logging
        self.auto_workers = auto_workers
        self.rev = rev
        self.prev_rev = None
        self.flags = {}  # (tag, target) -> justification outstanding
        # (tag, target) whose 'doing' bookkeeping was cleared by an upstream
        # purge while a unit was executing; cleared when none is in flight
        self.lost_keys = set()
        self.reply_job_queued = True
        self.timer_fired = []
        self.boot_fired = []
        self.content_seq = 0
        self.died = []
        reset_world()
        rig.install()
        dawgie.context.git_rev = rev
        self.fsm = FakeFSM()
        dawgie.context.fsm = self.fsm
        self.store = None
        if real_store:
            # a real shelve store in a private directory (end-to-end parts)
            self.store = rig.ShelveRig()
            self.db = RealDB(self.store)
            for t in targets:
                self.db._add(t)
            self.root = self.store.root
            os.makedirs(os.path.join(self.root, 'chron'), exist_ok=True)
        else:
            self.db = world.StubDB().install()
            self.db.target_list = list(targets)
            self.root = world.fresh_dir('sim')
            dawgie.context.data_dbs = self.root
        self.timers = timers
        self._real_call_later = None
        if timers and clock is None:
            # Friday noon: weekly / monthly / dated events of the generated
            # engines come due within the histories' clock advances
            clock = world.TClock(
                datetime.datetime(2024, 3, 1, 12, 0, 0, tzinfo=datetime.UTC)
            )
        if timers:
            import twisted.internet.reactor as reactor

            self._real_call_later = reactor.callLater
            reactor.callLater = clock.tc.callLater
        self.clock = clock or world.Clock(
            datetime.datetime(2024, 3, 1, 12, 0, 0, tzinfo=datetime.UTC)
        )
        sched.datetime = world.fake_datetime_module(self.clock)
        chron.datetime = world.fake_datetime_class(self.clock)
        self.eng = self.stack.enter_context(engines.loaded(spec))
        self.ref = self.eng.ref
        self._spy()
        self.event_runid = {}  # tag -> run ID carried by the last event
        self.rebuild(bumped)
        self.log.append({'op': ['build', sorted(bumped)], 'step': 0})
        if timers:
            self._spy_defer()
            sched.periodics(self.eng.factories[dawgie.Factories.events])
            self.boot_fired = [t for _s, t in self.timer_fired]

    def reload_engine(self):
        '''what an update does to the AE in a live process: the modules are
        loaded again (new module, class, factory and instance objects) and
        the schedule is rebuilt from the new factories'''
        import dawgie.pl.scan

        base = self.eng.base
        dawgie.pl.scan.reset(base)
        with warnings.catch_warnings():
            warnings.simplefilter('ignore')
            self.eng.factories = dawgie.pl.scan.for_factories(
                dawgie.context.ae_base_path, base)
        for u in self.units:
            u.answered = True
        self.farm.clear()
        self.rebuild(())

    def rebuild(self, bumped=()):
        '''what FSM._pipeline does: build the schedule from the factories'''
        import dawgie
        import dawgie.pl.version

        sched = self.sched
        f = self.eng.factories
        with warnings.catch_warnings():
            warnings.simplefilter('ignore')
            latest = dawgie.pl.version.current(
                f[dawgie.Factories.analysis]
                + f[dawgie.Factories.regress]
                + f[dawgie.Factories.task]
            )
            talg = {k: [v] for k, v in latest[0].items()}
            for i in bumped:
                talg[self.ref.tag[i % len(self.ref.tag)]] = ['0.0.1']
            prev = (
                {},
                talg,
                {k: [v] for k, v in latest[1].items()},
                {k: [v] for k, v in latest[2].items()},
            )
            sched.build(f, latest, prev)
        self.nodes = {}
        stack = list(sched.ae.at)
        while stack:
            n = stack.pop()
            if n.tag not in self.nodes:
                self.nodes[n.tag] = n
                stack.extend(list(n))
        # algorithms the scheduler cannot reach (must be none: C09)
        self.missing = sorted(set(self.ref.tag) - set(self.nodes))
        self.flags = {}
        self.event_runid = {}
        for i in {i % len(self.ref.tag) for i in bumped}:
            tag = self.ref.tag[i]
            for t in self._targets_of(tag, ['__all__']):
                self.flags[(tag, t)] = True

    # ---- plumbing

    def _spy(self):
        farm, sched, chron = self.farm, self.sched, self.chron
        sim = self
        real = {
            'put': farm._put,
            'complete': sched.complete,
            'update': sched.update,
            'purge': sched.purge,
            'append': chron.append,
            'exc': farm.log.exception,
            'err': farm.log.error,
        }
        self._real = real
        depth = [0]

        def put(job, runid, target, where):
            u = Unit(len(sim.units), job.tag, target or '__all__', runid,
                     sim.step)
            sim.units.append(u)
            sim.calls.append(('put', u))
            return real['put'](job=job, runid=runid, target=target, where=where)

        def complete(job, runid, target, timing, status):
            sim.calls.append(('complete', job.tag, target, runid, status.name))
            return real['complete'](job, runid, target, timing, status)

        def update(values, original, rid):
            sim.calls.append(('update', original.tag, rid))
            return real['update'](values, original, rid)

        def purge(node, target):
            if depth[0] == 0:
                sim.calls.append(('purge', node.tag, target))
            depth[0] += 1
            try:
                return real['purge'](node, target)
            finally:
                depth[0] -= 1

        def append(entry):
            if getattr(sim, 'chron_fail', False):
                # the journal cannot be written this once (disk full)
                sim.chron_fail = False
                raise world.InjectedIOFault(28, 'No space left on device '
                                            '(injected)')
            sim.calls.append(
                ('append', entry['task'], entry['target'], entry['runid'],
                 entry['status'])
            )
            return real['append'](entry)

        def exc(msg, *a, **k):
            import sys

            kind = ('injected' if isinstance(sys.exc_info()[1],
                                             world.InjectedFault)
                    else 'exception')
            sim.errors.append((kind, msg, repr(sys.exc_info()[1])))

        def err(msg, *a, **k):
            sim.errors.append(('error', msg % a if a else msg))

        real['do'] = farm.Hand.do

        def hand_do(hand, task):
            import dawgie.context

            sim.calls.append(('do', hand, task, sim.fsm.active,
                              dawgie.context.git_rev,
                              bool(getattr(hand.transport, 'closed', False))))
            return real['do'](hand, task)

        farm.Hand.do = hand_do
        farm._put = put
        sched.complete = complete
        sched.update = update
        sched.purge = purge
        chron.append = append
        farm.log.exception = exc
        farm.log.error = err

    def _spy_defer(self):
        '''a timer event that comes due is an external event like a request:
        it justifies a run of the node for every target it queued'''
        from dawgie.pl.jobinfo import State

        sched = self.sched
        real_defer = sched.defer
        self._real['defer'] = real_defer
        sim = self

        def defer():
            nodes = list({id(n): n for n in sched.per}.values())
            before = {id(n): (n.get('status'), set(n.get('todo')))
                      for n in nodes}
            real_defer()
            for n in nodes:
                st0, todo0 = before[id(n)]
                if n.get('status') == State.waiting and st0 not in (
                    State.waiting, State.running
                ):
                    sim.event_runid[n.tag] = None
                    for t in set(n.get('todo')) | todo0:
                        sim.flags[(n.tag, t)] = True
                    sim.timer_fired.append((sim.step, n.tag))

        sched.defer = defer

    def close(self):
        farm, sched, chron = self.farm, self.sched, self.chron
        r = self._real
        if 'defer' in r:
            sched.defer = r['defer']
        if self._real_call_later is not None:
            import twisted.internet.reactor as reactor

            reactor.callLater = self._real_call_later
        farm._put = r['put']
        farm.Hand.do = r['do']
        sched.complete = r['complete']
        sched.update = r['update']
        sched.purge = r['purge']
        chron.append = r['append']
        farm.log.exception = r['exc']
        farm.log.error = r['err']
        for w in self.workers:
            w.closed = True
        reset_world()
        self.stack.close()
        if self.store is not None:
            self.db.restore()
            self.store.close()
        else:
            world.rm(self.root)

    def _targets_of(self, tag, targets):
        '''what a request for ``targets`` means for algorithm ``tag``'''
        if self.ref.is_analysis(tag):
            return ['__all__']
        if '__all__' in targets:
            return list(self.db.target_list)
        return list(targets)

    # ---- observations

    def todo(self, tag):
        return set(self.nodes[tag].get('todo'))

    def doing(self, tag):
        return set(self.nodes[tag].get('doing'))

    def snapshot(self):
        return {
            t: (frozenset(n.get('todo')), frozenset(n.get('doing')),
                frozenset(n.get('do')))
            for t, n in self.nodes.items()
        }

    def inflight(self):
        return [u for u in self.units if not u.answered]

    def handed(self):
        return [u for u in self.units if u.handed and not u.answered]

    def limbo(self):
        '''(tag, target) fetched from the scheduler by a dispatch that failed
        before creating their task messages (injected database fault); the
        farm retries them at the next dispatch'''
        return {(j.tag, t) for j in self.farm._jobs for t in j.get('do')}

    def executing(self, tag):
        '''targets released and unanswered for the algorithm (ground truth),
        plus those a failed dispatch still has to release'''
        out = {u.target for u in self.units
               if not u.answered and u.jobid == tag}
        return out | {t for g, t in self.limbo() if g == tag}

    def pending_any(self):
        return any(n.get('todo') for n in self.nodes.values())

    def idle(self):
        return (not self.pending_any() and not self.inflight()
                and not self.limbo())

    def releasable(self, tag, target):
        '''reference rule of C01/C04: no upstream algorithm has the target (or
        an all-targets run) pending or executing'''
        for a in self.ref.ancestors[tag]:
            busy = self.todo(a) | self.executing(a)
            if target == '__all__':
                if busy:
                    return False
            elif target in busy or '__all__' in busy:
                return False
        return True

    # ---- operations

    def _scan_workers(self):
        import dawgie.pl.message as message

        for w in self.workers:
            if w.closed:
                continue
            fr = world.frames(w.sock.transport.data)
            for m in fr[w.seen:]:
                if m.type == message.Type.task:
                    w.tasks += 1
                    w.got_task = m
                    tgt = m.target or '__all__'
                    for u in self.units:
                        if (not u.handed and not u.answered
                                and u.jobid == m.jobid
                                and u.target == tgt and u.runid == m.runid):
                            u.handed = True
                            u.worker = w
                            u.msg = m
                            break
                    else:
                        self.errors.append(
                            ('harness', 'task message without release', repr(m))
                        )
                elif m.type == message.Type.response and not m.success:
                    w.aborted = True
            w.seen = len(fr)
            if w.got_task is not None or w.aborted or w.sock.transport.closed:
                # the real worker closes its socket after a task / an abort
                w.drop()

    def revision(self, rev_ok, variant=0):
        '''the revision a worker reports: current, or one of several stale
        ones (look-alikes included)'''
        if rev_ok:
            return self.rev
        stale = ['stale-rev', '', self.rev[:-1], self.rev + '0',
                 self.rev.upper(), self.prev_rev or 'rev-x']
        r = stale[variant % len(stale)]
        return r if r != self.rev else 'stale-rev'

    def join(self, rev_ok=True, host='h0', variant=0):
        import dawgie.pl.message as message

        sock = rig.LoopSocket(self.farm.Hand(world.Address(host, 4000)))
        w = Worker(sock, rev_ok, host)
        w.rev = self.revision(rev_ok, variant)
        w.active_at_join = self.fsm.active
        self.workers.append(w)
        m = message.make(
            typ=message.Type.register,
            inc=len(self.workers),
            rev=w.rev,
        )
        message.send(m, sock)
        w.registered_ok = w.rev == self.rev
        self._scan_workers()
        return w

    def status_poll(self, rev_ok=True, variant=0):
        '''what worker.Context.abort() does: one status message, one reply'''
        import dawgie.pl.message as message

        sock = rig.LoopSocket(self.farm.Hand(world.Address('h9', 4002)))
        message.send(
            message.make(typ=message.Type.status,
                         rev=self.revision(rev_ok, variant)),
            sock,
        )
        fr = world.frames(sock.transport.data)
        res = {'frames': fr, 'closed': sock.transport.closed, 'rev_ok': rev_ok}
        sock.close()
        return res

    def reload(self, n):
        '''the farm/schedule side of FSM.load: waiting workers are told to
        leave, the farm is cleared, a new revision is loaded and built'''
        import dawgie.context

        self.fsm.active = False
        waiting = [w for w in self.workers if not w.closed]
        self.farm.notify_all()
        self.farm.clear()
        self._scan_workers()
        res = {'waiting': waiting,
               'left_in_farm': list(self.farm._workers)}
        for u in self.units:
            u.answered = True  # work of the previous load is abandoned
        self.prev_rev = self.rev
        self.rev = f'rev-{[1, 12, 2, 120][n % 4]}'
        if self.rev == self.prev_rev:
            self.rev += 'b'
        dawgie.context.git_rev = self.rev
        self.rebuild(())
        self.fsm.active = True
        return res

    def leave(self, i):
        live = [w for w in self.workers if not w.closed]
        if live:
            # odd picks die without a FIN (connection lost), even ones
            # close cleanly (connection done)
            live[i % len(live)].drop(clean=(i % 2 == 0))

    def tick(self):
        if self.auto_workers:
            idle = [w for w in self.workers if not w.closed]
            for _ in range(max(0, self.auto_workers - len(idle))):
                self.join()
        self.farm.dispatch()
        self._scan_workers()

    def request(self, algs, targets):
        names = sorted({self.ref.tag[i % len(self.ref.tag)] for i in algs})
        tgts = set()
        for t in targets:
            if t < 0:
                tgts.add('__all__')
            elif self.db.target_list:
                tgts.add(self.db.target_list[t % len(self.db.target_list)])
        for tag in names:
            self.event_runid[tag] = None
            for t in self._targets_of(tag, tgts):
                self.flags[(tag, t)] = True
        self.sched.organize(
            task_names=set(names),
            targets=tgts,
            event='command-run requested by user',
        )
        return names, tgts

    def add_target(self, i):
        name = TARGET_POOL[i % len(TARGET_POOL)]
        self.db._add(name)

    def reply(self, k, outcome, mask, metric=True, explicit=None):
        '''deliver the result of the k-th handed unit, exactly as
        worker.cluster.execute does (new connection, one response message)'''
        import dawgie.pl.message as message

        hs = self.handed()
        if not hs:
            return None
        u = hs[k % len(hs)]
        m = u.msg
        values = None
        newset = set()
        if explicit is not None:
            values = list(explicit)
            for name, isnew in values:
                if isnew and '.__metric__.' not in name:
                    newset.add('.'.join(name.split('.')[2:]))
        elif outcome == 'success':
            values = []
            outs = self.ref.values[u.jobid]
            for j, vn in enumerate(outs):
                isnew = bool((mask >> (j % 12)) & 1)
                values.append((f'{m.runid}.{u.target}.{vn}', isnew))
                if isnew:
                    newset.add(vn)
            for mk in ('task_wall', 'db_memory'):
                values.append(
                    (f'{m.runid}.{u.target}.{u.jobid}.__metric__.{mk}',
                     bool(metric))
                )
        resp = message.make(
            typ=message.Type.response,
            inc=m.target,
            jid=m.jobid,
            rid=m.runid,
            suc={'success': True, 'failure': False, 'invalid': None}[outcome],
            tim=dict(m.timing, started=self.clock.now),
            val=values,
        )
        self.clock.advance(7)
        sock = rig.LoopSocket(self.farm.Hand(world.Address(u.worker.host, 4001)))
        u.answered = True  # delivered from here on
        # was the job still in the scheduler's queue when its reply arrived?
        self.reply_job_queued = any(j.tag == u.jobid for j in self.sched.que)
        if getattr(self, 'chronfault_armed', False):
            self.chron_fail = True
            self.chronfault_armed = False
        if getattr(self, 'tgtfault_armed', False) and hasattr(
                self.db, 'fail_targets'):
            # the fault hits the farm while it handles this reply
            self.db.fail_targets = 1
            self.tgtfault_armed = False
        try:
            message.send(resp, sock)
        except world.InjectedFault as exc:
            # an exception that escapes dataReceived: twisted logs it and
            # drops the connection (the farm's own handlers did not see it)
            self.errors.append(('injected', 'escaped dataReceived',
                                repr(exc)))
            sock.close(clean=False)
        finally:
            self.chron_fail = False
            if hasattr(self.db, 'fail_targets'):
                self.db.fail_targets = 0
        return u, newset

    def execute(self, k):
        '''run the k-th handed unit for real: worker.Context.run in this
        process against the real store, then deliver what it reports'''
        import importlib

        import dawgie.pl.worker

        hs = self.handed()
        if not hs:
            return None
        u = hs[k % len(hs)]
        m = u.msg
        ctx = dawgie.pl.worker.Context(('localhost', rig.FARM_PORT), self.rev)
        factory = getattr(importlib.import_module(m.factory[0]), m.factory[1])
        with self.store.worker_side():
            nv = ctx.run(factory, 0, m.jobid, m.runid, m.target,
                         dict(m.timing))
        idx = hs.index(u)
        return self.reply(idx, 'success', 0, explicit=list(nv))

    def run_worker(self, outcome):
        '''one real worker: dawgie.pl.worker.cluster.execute in this process -
        register, wait (the farm dispatches while it waits), receive a task,
        run it through worker.Context.run / Task.do on the real store, report
        on a new connection.  ``outcome``: 0 the algorithm stores new values,
        1 it raises (failure), 2 it raises NoValidOutputDataError (invalid
        data).  Returns (unit, newset, outcome name) or None when the farm had
        nothing for this worker.'''
        import dawgie
        import dawgie.db
        import dawgie.pl.message as message
        import dawgie.pl.worker
        import dawgie.pl.worker.cluster as cluster
        import dawgie.security as sec

        if self.store is None:
            raise core.HarnessError('run_worker needs the real store')
        sim = self
        state = {'unit': None, 'socks': [], 'pumped': 0}

        class NoWork(Exception):
            pass

        class _Log:
            def reassign(self, _host):
                return None

        def hook(alg, ds):
            tag = f'{ds._task()}.{alg.name()}'
            tn = ds._tn()
            rid = ds._bot()._runid()
            for u in sim.units:
                if (not u.answered and u.jobid == tag and u.target == tn
                        and (u.runid == rid or sim.ref.kind[tag] == 'regress')):
                    state['unit'] = u
                    u.handed = True
                    u.worker = state.get('worker')
                    break
            # the reply follows: what the checks compare it against
            state['queued'] = any(j.tag == tag for j in sim.sched.que)
            sim.work_before = sim.snapshot()
            sim.work_calls_at = len(sim.calls)
            if outcome == 1:
                raise RuntimeError('algorithm failed (injected)')
            if outcome == 2:
                raise dawgie.NoValidOutputDataError('no valid data (injected)')
            if outcome == 3:
                # e.g. a wrapped command-line parser calling sys.exit(2)
                raise SystemExit(2)
            sim.content_seq += 1
            for sv in alg.state_vectors():
                for vn in sv:
                    sv[vn].content = [tag, tn, sv.name(), vn, sim.content_seq]
            ds.update()

        real_connect = sec.connect

        def connect(address):
            sock = real_connect(address)
            state['socks'].append(sock)
            if len(state['socks']) == 1:
                w = Worker(sock, True, 'hx')
                w.rev = sim.rev
                w.registered_ok = True
                w.active_at_join = sim.fsm.active
                sim.workers.append(w)
                state['worker'] = w
            return sock

        def pump(sock):
            # the worker blocks on its socket: the farm gets a dispatch tick
            state['pumped'] += 1
            if state['pumped'] > 2:
                raise NoWork()
            sim.farm.dispatch()
            sim._scan_workers()
            if sock.rpos >= len(sock.transport.data):
                raise NoWork()

        def soft_close():
            from dawgie.db.shelve.state import DBI

            DBI()._DBI__reopened = False

        saved = (dawgie.pl.worker.LOGGING, dawgie.db.close, rig.PUMP[0],
                 getattr(dawgie, '_verif_run_hook', None))
        dawgie.pl.worker.LOGGING = _Log()
        dawgie.db.close = soft_close
        rig.PUMP[0] = pump
        dawgie._verif_run_hook = hook
        sec.connect = connect
        got_task = True
        try:
            cluster.execute(('localhost', rig.FARM_PORT),
                            len(self.workers) + 1, 0, self.rev)
        except NoWork:
            got_task = False
        except SystemExit:
            # the worker process died without reporting
            state['died'] = True
        except ValueError as exc:
            # "Not the same software revisions!" / wrong message: the worker
            # was sent away
            got_task = False
            state['abort'] = str(exc)
        finally:
            (dawgie.pl.worker.LOGGING, dawgie.db.close, rig.PUMP[0],
             dawgie._verif_run_hook) = saved
            sec.connect = real_connect
            dawgie.context.fsm = self.fsm
            from dawgie.db.shelve.state import DBI

            DBI()._DBI__reopened = False
            for sk in state['socks']:
                sk.close()
            w = state.get('worker')
            if w is not None:
                w.closed = True
        self._scan_workers()
        u = state['unit']
        if not got_task or u is None:
            return None
        if state.get('died'):
            self.died.append(u)
        u.answered = True
        self.reply_job_queued = state.get('queued', True)
        newset = set()
        if outcome == 0:
            newset = {v for v in self.ref.values[u.jobid]}
        return u, newset, (OUTCOMES + ['failure'])[outcome]

    def expect_after_success(self, u, newset):
        '''(tag, target) pairs that must become pending after this report'''
        out = []
        for d in self.ref.children[u.jobid]:
            if self.ref.inputs[d] & newset:
                for t in self._targets_of(d, [u.target]):
                    out.append((d, t))
        for v in newset:
            for d in self.ref.feedbacks.get(v, ()):
                for t in self._targets_of(d, [u.target]):
                    out.append((d, t))
        return out

    def do(self, op):
        '''execute one operation; returns an event dict'''
        self.step += 1
        self.calls = []
        before = self.snapshot()
        nerr = len(self.errors)
        if op[0] in ('auto', 'auto2'):
            op = self.resolve_auto(op)
        if op[0] == 'repu':
            # ['repu', alg, outcome, mask, metric]: the handed unit of that
            # algorithm answers (scripted skeletons address units by name)
            tag = self.ref.tag[op[1] % len(self.ref.tag)]
            idx = [i for i, u in enumerate(self.handed()) if u.jobid == tag]
            op = (['rep', idx[0], op[2], op[3], op[4] if len(op) > 4 else 1]
                  if idx else ['tick'])
        ev = {'op': op, 'step': self.step, 'before': before}
        kind = op[0]
        if kind == 'tick':
            nrel = len(self.units)
            was_idle_put = [(t, set(n.get('todo')))
                            for t, n in self.nodes.items() if n.get('todo')]
            ev['pending_before'] = was_idle_put
            ev['releasable_before'] = [
                (t, x) for t, todo in was_idle_put for x in sorted(todo)
                if self.releasable(t, x)
            ]
            ev['exec_before'] = {t: self.executing(t) for t in self.nodes}
            ev['carried'] = dict(self.event_runid)
            self.tick()
            ev['released'] = self.units[nrel:]
        elif kind == 'req':
            ev['names'], ev['targets'] = self.request(op[1], op[2])
        elif kind == 'reqall':
            # a full run: every algorithm for every known target
            ev['names'], ev['targets'] = self.request(
                list(range(len(self.ref.tag))), [-1]
            )
        elif kind == 'rereq':
            # request again a unit that is in flight or pending right now
            cand = [(u.jobid, u.target) for u in self.inflight()]
            cand += [(t, x) for t, n in sorted(self.nodes.items())
                     for x in n.get('todo')]
            if cand:
                tag, tgt = cand[op[1] % len(cand)]
                idx = self.ref.tag.index(tag)
                if tgt == '__all__' or tgt not in self.db.target_list:
                    tl = [-1]
                else:
                    tl = [self.db.target_list.index(tgt)]
                ev['names'], ev['targets'] = self.request([idx], tl)
            else:
                ev['names'], ev['targets'] = [], set()
        elif kind == 'requp':
            # a second event mid-flight: request an upstream algorithm of a
            # unit that is executing right now, for the same target
            cand = sorted(
                {(a, u.target) for u in self.inflight()
                 for a in self.ref.ancestors[u.jobid]}
            )
            if cand:
                tag, tgt = cand[op[1] % len(cand)]
                idx = self.ref.tag.index(tag)
                if tgt == '__all__' or tgt not in self.db.target_list:
                    tl = [-1]
                else:
                    tl = [self.db.target_list.index(tgt)]
                ev['names'], ev['targets'] = self.request([idx], tl)
            else:
                ev['names'], ev['targets'] = [], set()
        elif kind == 'join':
            ev['worker'] = self.join(bool(op[1]),
                                     f'h{op[2] if len(op) > 2 else 0}',
                                     op[3] if len(op) > 3 else 0)
        elif kind == 'archived':
            self.fsm.archive_done()
        elif kind == 'leave':
            self.leave(op[1])
        elif kind == 'rep':
            r = self.reply(op[1], OUTCOMES[op[2] % 3], op[3], op[4] if len(op) > 4 else 1)
            if r is not None:
                ev['unit'], ev['newset'] = r
                ev['job_queued'] = self.reply_job_queued
                ev['outcome'] = OUTCOMES[op[2] % 3]
        elif kind == 'dbfault':
            # the next db.next() fails once (database briefly unavailable)
            # (op[1]: how many calls succeed first - the fault may hit the
            # second or third job of a batch)
            if hasattr(self.db, 'fail_next'):
                self.db.fail_next = 1
                self.db.fail_skip = op[1] if len(op) > 1 else 0
        elif kind == 'chronfault':
            # the execution journal cannot be written while the farm handles
            # the next reply
            self.chronfault_armed = True
        elif kind == 'tgtfault':
            # db.targets() fails once while the farm handles the next reply
            self.tgtfault_armed = True
        elif kind == 'timer':
            # let time pass: to the next armed timer (op[1] == 0) or by a
            # fixed amount; due timers run schedule.defer
            if self.timers:
                calls = sorted(self.clock.tc.getDelayedCalls(),
                               key=lambda c: c.getTime())
                if op[1] == 0 and calls:
                    dt = max(0.0, calls[0].getTime() - self.clock.tc.seconds())
                    self.clock.advance(dt + 1)
                else:
                    self.clock.advance([60, 3600, 86400, 7 * 86400][op[1] % 4])
        elif kind == 'work':
            r = self.run_worker(op[1] % 4)
            if r is not None:
                ev['unit'], ev['newset'], ev['outcome'] = r
                ev['job_queued'] = self.reply_job_queued
                ev['before'] = before = self.work_before
                self.calls = self.calls[self.work_calls_at:]
                # checks treat it as the reply it is
                ev['op'] = ['rep', 'cluster.execute', op[1] % 4]
                kind = 'rep'
            else:
                ev['op'] = ['work-idle', op[1] % 4]
        elif kind == 'exec':
            r = self.execute(op[1])
            if r is not None:
                ev['unit'], ev['newset'] = r
                ev['outcome'] = 'success'
                ev['job_queued'] = self.reply_job_queued
        elif kind == 'tgt':
            self.add_target(op[1])
        elif kind == 'pause':
            self.sched.pause()
        elif kind == 'unpause':
            self.sched.unpause()
        elif kind == 'active':
            self.fsm.active = bool(op[1])
        elif kind == 'status':
            ev['status'] = self.status_poll(bool(op[1]),
                                            op[2] if len(op) > 2 else 0)
            ev['status']['active'] = self.fsm.active
        elif kind == 'reload':
            ev['reload'] = self.reload(op[1])
        else:
            raise core.HarnessError(f'unknown op {op}')
        ev['after'] = self.snapshot()
        ev['calls'] = self.calls
        ev['timer_fired'] = [t for st_, t in self.timer_fired
                             if st_ == self.step]
        ev['errors'] = self.errors[nerr:]
        ev['fault'] = any(e[0] == 'injected' for e in ev['errors'])
        # justification bookkeeping (C02 minimality)
        if kind in ('rep', 'exec') and 'unit' in ev:
            u = ev['unit']
            if ev['outcome'] == 'success':
                fb = any(v in self.ref.feedbacks for v in ev['newset'])
                for d, t in self.expect_after_success(u, ev['newset']):
                    self.flags[(d, t)] = True
                merged = {}
                for d, _t in self.expect_after_success(u, ev['newset']):
                    new = None if fb else u.runid
                    if d not in merged and before[d][0]:
                        # still waiting for an earlier event: one run for
                        # both, under the newer run ID (none = a fresh one)
                        held = self.event_runid.get(d)
                        new = (None if held is None or new is None
                               else max(held, new))
                    merged.setdefault(d, new)
                self.event_runid.update(merged)
            else:
                for d in self.ref.descendants[u.jobid]:
                    self.flags.pop((d, u.target), None)
                for v in self.inflight():
                    if (v.jobid in self.ref.descendants[u.jobid]
                            and v.target == u.target
                            and v.target in before[v.jobid][1]
                            and v.target not in ev['after'][v.jobid][1]):
                        v.lost = True
                        self.lost_keys.add(v.key)
                        # purge leaves the job of an executing unit in the
                        # queue (its reply is looked up there)
                        if not any(j.tag == v.jobid for j in self.sched.que):
                            ev.setdefault('purged_unqueued', []).append(v)
        live = {u.key for u in self.units if not u.answered}
        self.lost_keys &= live | (
            {ev['unit'].key} if ev.get('unit') is not None else set()
        )
        self.log.append(ev)
        return ev

    def resolve_auto(self, op):
        '''["auto", n, a, b, c] -> the n-th action enabled in this state.
        Keeps histories dense: replies only when something was handed, ticks
        only when something can move.'''
        kind, n, a, b, c = op
        enabled = []
        if kind == 'auto2' and any(
            self.ref.ancestors[u.jobid] for u in self.inflight()
        ):
            enabled += ['requp'] * 2
        hs = self.handed()
        # aimed replies (auto2): an upstream unit fails while a unit
        # downstream of it is in flight for the same target; then the unit
        # whose bookkeeping that failure touched answers
        up = [i for i, u in enumerate(hs)
              if any(v is not u and v.target in (u.target, '__all__')
                     and u.jobid in self.ref.ancestors[v.jobid]
                     for v in self.inflight())]
        lost = [i for i, u in enumerate(hs) if u.key in self.lost_keys]
        if kind == 'auto2' and up:
            enabled += ['repup'] * 2
        if kind == 'auto2' and lost:
            enabled += ['replost'] * 3
        # a unit that was queued again while its result is outstanding
        again = [i for i, u in enumerate(hs)
                 if u.target in self.todo(u.jobid)]
        # ... by a newer report of an upstream run (the pending event then
        # carries that run's ID) rather than by an operator request
        newer = [i for i in again
                 if isinstance(self.nodes[hs[i].jobid].get('runid'), int)]
        again = newer or again
        if kind == 'auto2' and again:
            enabled += ['repagain'] * 3
        if self.handed():
            enabled += ['rep'] * 4
        if self.pending_any() or self.farm._cluster:
            enabled += ['tick'] * 3
        if self.inflight() or self.pending_any():
            enabled += ['rereq']
        enabled += ['req', 'req']
        if not self.pending_any() and not self.inflight():
            enabled += ['reqall'] * 2
        act = enabled[n % len(enabled)]
        if act == 'repup':
            return ['rep', up[a % len(up)], [0, 0, 1, 2][b % 4], 4095, c & 1]
        if act == 'repagain':
            return ['rep', again[a % len(again)], 0, [4095, 4095, c][b % 3],
                    c & 1]
        if act == 'replost':
            return ['rep', lost[a % len(lost)], [0, 0, 0, 1][b % 4],
                    [0, 4095, c][b % 3], c & 1]
        if act == 'rep':
            outcome = [0, 0, 0, 0, 0, 0, 0, 1, 1, 2][b % 10]
            mask = [0, 4095, c, c][(b // 10) % 4]
            return ['rep', a, outcome, mask, c & 1]
        if act == 'tick':
            return ['tick']
        if act == 'rereq':
            return ['rereq', a]
        if act == 'requp':
            return ['requp', a]
        if act == 'reqall':
            return ['reqall']
        return ['req', [a, b][: 1 + (c & 1)], [(c >> 1) % 5 - 1]]

    def drain(self, outcome_for=None, bound=None, workers=4):
        '''tick; answer everything; until quiescent or the bound is hit.
        returns (rounds used, terminated)'''
        if bound is None:
            bound = 2 * (len(self.nodes) * (len(self.db.target_list) + 1)) + 5
        rounds = 0
        events = []
        saved = self.auto_workers
        self.auto_workers = max(workers, saved)
        try:
            while rounds < bound:
                if self.idle():
                    return rounds, True, events
                rounds += 1
                events.append(self.do(['tick']))
                n = 0
                while self.handed():
                    oc = outcome_for(n) if outcome_for else 0
                    events.append(self.do(['rep', 0, oc, 0, 0]))
                    n += 1
            return rounds, self.idle(), events
        finally:
            self.auto_workers = saved


# --------------------------------------------------------------------------
# history generator


def op_strategy(weights=None):
    w = {
        'tick': 2, 'rep': 2, 'req': 2, 'join': 1, 'leave': 0, 'tgt': 1,
        'pause': 0, 'active': 0, 'rereq': 1, 'auto': 9,
        'auto2': 8, 'requp': 1, 'status': 0, 'reload': 0, 'archived': 0,
        'joinx': 0, 'timer': 0, 'dbfault': 0, 'tgtfault': 0, 'chronfault': 0,
    }
    w.update(weights or {})
    small = st.integers(0, 7)
    choices = []
    choices += [st.just(['tick'])] * w['tick']
    choices += [
        st.tuples(st.just('rep'), small, st.sampled_from([0, 0, 0, 0, 1, 2]),
                  st.integers(0, 4095), st.integers(0, 1)).map(list)
    ] * w['rep']
    choices += [
        st.tuples(
            st.just('req'),
            st.lists(small, min_size=1, max_size=2),
            st.lists(st.integers(-1, 3), min_size=0, max_size=2),
        ).map(list)
    ] * w['req']
    choices += [st.tuples(st.just('rereq'), small).map(list)] * w['rereq']
    choices += [
        st.tuples(st.just('auto'), st.integers(0, 59), small,
                  st.integers(0, 39), st.integers(0, 4095)).map(list)
    ] * w['auto']
    choices += [
        st.tuples(st.just('auto2'), st.integers(0, 59), small,
                  st.integers(0, 39), st.integers(0, 4095)).map(list)
    ] * w['auto2']
    choices += [st.tuples(st.just('requp'), small).map(list)] * w['requp']
    choices += [st.tuples(st.just('join'), st.sampled_from([1, 1, 1, 0]),
                          st.integers(0, 2)).map(list)] * w['join']
    choices += [st.tuples(st.just('leave'), small).map(list)] * w['leave']
    choices += [st.tuples(st.just('join'), st.sampled_from([1, 0, 0]),
                          st.integers(0, 2),
                          st.integers(0, 5)).map(list)] * w['joinx']
    choices += [st.tuples(st.just('status'), st.integers(0, 1),
                          st.integers(0, 5)).map(list)] * w['status']
    choices += [st.tuples(st.just('reload'), small).map(list)] * w['reload']
    choices += [st.just(['archived'])] * w['archived']
    choices += [st.tuples(st.just('dbfault'),
                          st.sampled_from([0, 0, 1, 1, 2])).map(list)
                ] * w['dbfault']
    choices += [st.just(['tgtfault'])] * w['tgtfault']
    choices += [st.just(['chronfault'])] * w['chronfault']
    choices += [st.tuples(st.just('timer'),
                          st.sampled_from([0, 0, 0, 0, 1, 2, 3])).map(list)
                ] * w['timer']
    choices += [st.tuples(st.just('tgt'), small).map(list)] * w['tgt']
    choices += [st.sampled_from([['pause'], ['unpause']])] * w['pause']
    choices += [st.tuples(st.just('active'), st.integers(0, 1)).map(list)] * w['active']
    return st.one_of(*choices)


@st.composite
def histories(draw, weights=None, max_ops=60, min_ops=4, spec_kw=None,
              empty_targets=True):
    kw = {'max_algs': 6, 'max_pkgs': 3, 'events': False}
    kw.update(spec_kw or {})
    spec = draw(engines.specs(**kw))
    targets = draw(
        st.lists(
            st.sampled_from(TARGET_POOL[:3]),
            unique=True,
            min_size=0 if empty_targets else 1,
            max_size=3,
        )
    )
    if empty_targets and targets == [] and draw(st.integers(0, 3)):
        targets = ['T1']
    if kw.get('events') and not any(a['events'] for a in spec['algs']):
        i = draw(st.integers(0, len(spec['algs']) - 1))
        spec['algs'][i]['events'] = draw(
            st.lists(engines._moment, min_size=1, max_size=2))
    if kw.get('events') and spec['style'] == 'registry':
        # the events factory must exist for a package that declares events
        for pi in {a['pkg'] for a in spec['algs'] if a['events']}:
            if 'events' not in spec['placeholders'][pi]:
                spec['placeholders'][pi] = sorted(
                    spec['placeholders'][pi] + ['events'])
    bumped = draw(st.lists(st.integers(0, 7), max_size=3))
    op = op_strategy(weights)
    mid = max(min_ops + 1, max_ops // 3)
    ops = draw(
        st.one_of(
            st.lists(op, min_size=min_ops, max_size=mid),
            st.lists(op, min_size=mid, max_size=max_ops),
            st.lists(op, min_size=(mid + max_ops) // 2, max_size=max_ops),
        )
    )
    if draw(st.integers(0, 3)) == 0:
        ops = [['reqall']] + ops
    case = {
        'spec': spec,
        'targets': targets,
        'bumped': bumped,
        'workers': draw(st.sampled_from([0, 1, 2, 3, 3, 4, 4])),
        'ops': ops,
        # size of the pieces in which worker messages reach the farm
        'seg': draw(st.sampled_from([0, 0, 0, 1, 3, 5, 7, 64, 1448])),
    }
    if kw.get('events'):
        case['timers'] = True
    return case


def reply_dropped_by_known_finding(sim, ev):
    '''the reply of ev belongs to a unit whose 'doing' entry was cleared by an
    upstream failure (schedule.purge) and whose job had left the queue before
    the reply arrived: farm.Hand._res drops it ("Could not find job").  Listed
    in known_findings.json under each property it shows in.'''
    u = ev.get('unit')
    return (u is not None and u.key in sim.lost_keys
            and not ev.get('job_queued', True)
            and not any(c[0] == 'complete' for c in ev['calls']))


KNOWN_DROP = 'reply/dropped@doing-cleared-by-upstream-purge'


def run_history(case, on_event, at_end=None, pid=None, setup=None):
    '''interpret a history; call on_event(sim, event, out) after each op.
    A history in which a listed known finding has fired is not evaluated any
    further (its consequences would only be echoes of that finding).'''
    out = core.Outcome()
    if case.get('real_store'):
        from . import store as storemod

        storemod.use_real_digest_binaries(False)
    rig.SEGMENT[0] = case.get('seg', 0)
    try:
        sim = Sim(case['spec'], case['targets'], case.get('bumped', ()),
                  auto_workers=case.get('workers', 0),
                  timers=bool(case.get('timers')),
                  real_store=bool(case.get('real_store')))
    except BaseException:
        rig.SEGMENT[0] = 0
        raise
    if case.get('seg'):
        out.label('worker-messages-arrive-in-pieces')
    if any(r['to'] == i for i, al in enumerate(case['spec']['algs'])
           for r in al['inputs']):
        out.label('algorithm-reads-back-its-own-output')
    try:
        if setup is not None:
            setup(sim)
        if sim.boot_fired:
            out.label('timer-event-at-boot')
        if sim.missing:
            out.fail(
                'graph/algorithm-missing-from-task-tree',
                f'{sim.missing} declared by the engine but not reachable in '
                'schedule.ae.at: they can never be scheduled',
            )
            return out
        for op in case['ops']:
            ev = sim.do(op)
            if ev.get('timer_fired'):
                out.label('timer-event-came-due')
            on_event(sim, ev, out)
            if out.failures:
                if pid and all(
                    core.known_finding(pid, f.bucket) for f in out.failures
                ):
                    out.label('history-cut-at-known-finding')
                break
        if at_end is not None and not out.failures:
            at_end(sim, out)
    finally:
        rig.SEGMENT[0] = 0
        sim.close()
    return out
