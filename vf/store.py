'''Store machine (DESIGN.md 3.5): histories of updates, loads, removals,
version bumps, registrations, reopen cycles ... on a real shelve backend in a
private directory, next to a dictionary model kept by the harness.

The client side (Dataset.update / load / db.add / db.update from a worker)
goes through the real Connector -> in-process comms.Worker hop; the foreman
side (remove, reset, trace, next, versions) calls dawgie.db directly.
'''

import contextlib
import hashlib
import os
import pickle
import runpy
import sys

from hypothesis import strategies as st

from . import core, rig, world

_CLASSES = {}


def classes():
    '''dawgie subclasses are created lazily (dawgie must come from the tree)'''
    if _CLASSES:
        return _CLASSES
    import dawgie

    class Val(dawgie.Value):
        # as in a real engine the version is what the class declares: a
        # fresh instance carries it (Version.__setstate__ relies on that);
        # one subclass per value identity, see val_class()
        VER = [1, 0, 0]

        def __init__(self, content=None):
            dawgie.Value.__init__(self)
            self._version_ = dawgie.VERSION(*type(self).VER)
            self.content = content

        def features(self):
            return []

    class SV(dawgie.StateVector):
        def __init__(self, name, ver, vals):
            dawgie.StateVector.__init__(self)
            self._version_ = dawgie.VERSION(*ver)
            self._n = name
            for k, v in vals.items():
                self[k] = v

        def name(self):
            return self._n

        def view(self, caller, visitor):
            pass

    class Alg(dawgie.Algorithm):
        def __init__(self, name, ver, svs):
            self._version_ = dawgie.VERSION(*ver)
            self._n = name
            self._svs = svs

        def name(self):
            return self._n

        def previous(self):
            return []

        def run(self, ds, ps):
            pass

        def state_vectors(self):
            return self._svs

    class Bot(dawgie.Task):
        def __init__(self, name, runid, target, algs):
            dawgie.Task.__init__(self, name, 0, runid, target)
            self._algs = algs

        def list(self):
            return self._algs

    # picklable under a stable module path
    for c in (Val, SV, Alg, Bot):
        c.__module__ = __name__
        c.__qualname__ = c.__name__
        globals()[c.__name__] = c
    _CLASSES.update(Val=Val, SV=SV, Alg=Alg, Bot=Bot)
    return _CLASSES


def val_class(i, j, k, ver, inherit=False):
    '''the Value class of value k of state vector j of algorithm i; its
    declared version is the list ``ver`` (bumped in place by the harness, as
    a code change would).  ``inherit``: derived from the class of value 0 of
    the same state vector (value classes related by inheritance).'''
    base = classes()['Val']
    name = f'Val_{i}_{j}_{k}'
    if inherit and k > 0:
        base = val_class(i, j, 0, None)
        name = f'ValH_{i}_{j}_{k}'
    cls = globals().get(name)
    if cls is None:
        cls = type(name, (base,), {'__module__': __name__,
                                   '__qualname__': name})
        globals()[name] = cls
    if ver is not None:
        cls.VER = ver
    return cls


BIG = {}


def canon(content):
    '''canonical text of a content; long ones by digest'''
    text = core.canon(content)
    if len(text) > 2000:
        return 'sha1:' + hashlib.sha1(text.encode()).hexdigest()
    return text


def expand(content):
    '''{'__big__': [h, t]} stands for a payload of about 90 KiB whose
    pickle differs from that of another tail only in its last bytes'''
    if isinstance(content, dict) and '__big__' in content:
        h, t = content['__big__']
        if h >= 2:
            # above one MiB (block-wise readers)
            if h not in BIG:
                BIG[h] = list(range(h, h + 420000))
        elif h not in BIG:
            BIG[h] = list(range(h, h + 30000))
        return {'head': BIG[h], 'tail': t}
    return content


@contextlib.contextmanager
def catalogue_write_fault(n):
    '''the n-th write (from now) to a catalogue table - not the primary
    table - fails once with ENOSPC; yields a one-element list that is set
    when the fault fired'''
    import shelve

    real = shelve.Shelf.__setitem__
    left = [n]
    hit = [0]

    def setitem(shelf, key, value):
        if left[0] is not None and not str(key).startswith('('):
            if left[0] == 0:
                left[0] = None
                hit[0] = 1
                raise OSError(28, 'No space left on device (injected)')
            left[0] -= 1
        return real(shelf, key, value)

    shelve.Shelf.__setitem__ = setitem
    try:
        yield hit
    finally:
        shelve.Shelf.__setitem__ = real


class SimulatedCrash(BaseException):
    '''the process dies here (BaseException: nothing in DAWGIE catches it)'''


class _Proxy:
    '''module stand-in that lets the harness intercept single functions'''

    def __init__(self, real, hooks):
        self.__dict__['_real'] = real
        self.__dict__['_hooks'] = hooks

    def __getattr__(self, name):
        h = self._hooks.get(name)
        return h if h is not None else getattr(self._real, name)


class _PathProxy(_Proxy):
    pass


def _fast_digest(real):
    '''md5sum / sha1sum stand-in: same output format, no process spawn'''

    def check_output(cmd, *a, **k):
        if cmd[0] in ('md5sum', 'sha1sum') and cmd[1] == '-b':
            with open(cmd[2], 'rb') as f:
                raw = f.read()
            h = hashlib.md5(raw) if cmd[0] == 'md5sum' else hashlib.sha1(raw)
            return f'{h.hexdigest()} *{cmd[2]}\n'.encode()
        return real.check_output(cmd, *a, **k)

    return check_output


_N = [0]


def use_real_digest_binaries(yes):
    import dawgie.db.util as dbu
    import subprocess

    dbu.subprocess = subprocess if yes else _Proxy(
        subprocess, {'check_output': _fast_digest(subprocess)})


class Store:
    '''the real store + the model'''

    # pylint: disable=too-many-instance-attributes
    def __init__(self, pool):
        # one store in eight keeps the real md5sum/sha1sum binaries
        _N[0] += 1
        use_real_digest_binaries(_N[0] % 8 == 0)
        self.rig = rig.ShelveRig()
        self.db = self.rig.db
        self.pool = pool  # list of alg specs (plain data)
        self.ver = {}  # ('a',i) / ('s',i,j) / ('v',i,j,k) -> [d,i,b]
        for i, a in enumerate(pool):
            self.ver[('a', i)] = list(a['ver'])
            for j, s in enumerate(a['svs']):
                self.ver[('s', i, j)] = list(s['ver'])
                for k, _v in enumerate(s['vals']):
                    self.ver[('v', i, j, k)] = list(s['vers'][k])
        # model: full identity -> (content canon, blob name)
        self.model = {}
        self.targets = []  # in order of first registration
        self.blobs = set()  # names ever moved into the store and not purged
        self.reopens = 0
        self.crash_at = None  # (step name) -> raise there
        self.steps_seen = []

    def close(self):
        self.rig.close()

    # ---- identity helpers

    def ident(self, i, j, k):
        a = self.pool[i]
        s = a['svs'][j]
        return (
            a['task'], a['name'], tuple(self.ver[('a', i)]),
            s['name'], tuple(self.ver[('s', i, j)]),
            s['vals'][k], tuple(self.ver[('v', i, j, k)]),
        )

    def make_alg(self, i, contents=None):
        c = classes()
        a = self.pool[i]
        svs = []
        for j, s in enumerate(a['svs']):
            vals = {}
            for k, vn in enumerate(s['vals']):
                content = None
                if contents is not None:
                    content = contents[(j * 3 + k) % len(contents)]
                cls = val_class(i, j, k, self.ver[('v', i, j, k)],
                                bool((s.get('inh') or [0] * 9)[k]))
                vals[vn] = cls(expand(content))
            svs.append(c['SV'](s['name'], self.ver[('s', i, j)], vals))
        return c['Alg'](a['name'], self.ver[('a', i)], svs)

    def make_bot(self, i, run, target, alg):
        return classes()['Bot'](self.pool[i]['task'], run, target, [alg])

    # ---- operations (client side)

    def add_target(self, t):
        with self.rig.worker_side():
            ok = self.db.add(t)
        if t not in self.targets:
            self.targets.append(t)
        return ok

    def update(self, t, run, i, contents):
        '''Dataset.update() as a worker; returns (reported new_values, blobs
        before, expected records)'''
        alg = self.make_alg(i, contents)
        bot = self.make_bot(i, run, t, alg)
        before = set(os.listdir(self.rig.db_dir('dbs')))
        expect = []
        for j, s in enumerate(self.pool[i]['svs']):
            for k, vn in enumerate(s['vals']):
                v = alg.state_vectors()[j][vn]
                raw = pickle.dumps(v, pickle.HIGHEST_PROTOCOL)
                name = (hashlib.md5(raw).hexdigest() + '_'
                        + hashlib.sha1(raw).hexdigest())
                expect.append(((run, t) + self.ident(i, j, k), name,
                               canon(v.content), vn))
        with self.rig.worker_side():
            ds = self.db.connect(alg, bot, t)
            ds.update()
        if t not in self.targets:
            self.targets.append(t)
        for key, name, text, _vn in expect:
            self.model[key] = (text, name)
            self.blobs.add(name)
        return bot.new_values(), before, expect

    def hold(self, t, run, i):
        '''connect a Dataset and keep it (an algorithm may load more than
        once through the dataset it was given); returns a handle'''
        alg = self.make_alg(i, None)
        bot = self.make_bot(i, run, t, alg)
        with self.rig.worker_side():
            ds = self.db.connect(alg, bot, t)
        return {'t': t, 'run': run, 'i': i, 'alg': alg, 'ds': ds,
                'reopens': self.reopens,
                'ver': {k: list(v) for k, v in self.ver.items()}}

    def update_with_conn_fault(self, t, run, i, contents, n, kind):
        '''update() during which the n-th round trip to the database server
        breaks once; returns (update()'s result or None when it raised,
        whether the fault fired).  kind 'move': instead, the server's move of
        a staged blob into the store fails once (disk full).'''
        if kind == 'move':
            import dawgie.db.util as dbu
            import shutil

            saved = dbu.shutil
            left = [n % 3]
            fired = [False]

            def move(a, b):
                if left[0] is not None:
                    if left[0] == 0:
                        left[0] = None
                        fired[0] = True
                        raise OSError(28, 'No space left on device '
                                      '(injected)', b)
                    left[0] -= 1
                return shutil.move(a, b)

            dbu.shutil = _Proxy(saved, {'move': move})
            try:
                try:
                    res = self.update(t, run, i, contents)
                except OSError:
                    res = None
            finally:
                dbu.shutil = saved
                from dawgie.db.shelve.state import DBI

                DBI()._DBI__reopened = False
            return res, fired[0]
        rig.CONN_FAULT[0] = [n, kind]
        try:
            try:
                res = self.update(t, run, i, contents)
            except OSError:
                res = None
        finally:
            fired = rig.CONN_FAULT[0] is None
            rig.CONN_FAULT[0] = None
        return res, fired

    def load(self, t, run, i, held=None):
        '''Dataset.load(); returns {(j,k): ('untouched'|content canon)}'''
        if held is not None:
            t, run, i = held['t'], held['run'], held['i']
            alg, ds = held['alg'], held['ds']
        else:
            alg = self.make_alg(i, None)
            ds = None
        proto = {(j, k): alg.state_vectors()[j][vn]
                 for j, s in enumerate(self.pool[i]['svs'])
                 for k, vn in enumerate(s['vals'])}
        with self.rig.worker_side():
            if ds is None:
                bot = self.make_bot(i, run, t, alg)
                ds = self.db.connect(alg, bot, t)
            ds.load()
        if t not in self.targets:
            self.targets.append(t)  # __to_key registers the target
        got = {}
        for (j, k), p in proto.items():
            vn = self.pool[i]['svs'][j]['vals'][k]
            now = alg.state_vectors()[j][vn]
            if now is p:
                got[(j, k)] = ('untouched', None)
            else:
                got[(j, k)] = ('loaded', canon(getattr(now, 'content',
                                                            '<no content>')),
                               tuple(now.__dict__.get('_version_seal_')
                                     or ()))
                # the caller owns what it was given: an algorithm may refine
                # a loaded value in place; no later load may see that
                now.content = ['scribbled on by an earlier caller', t, run]
                # (Version.__setstate__ has given it the version its class
                # declares now - the harness classes declare theirs like a
                # real engine's, see val_class)
        return got

    def expect_load(self, t, run, i, j, k, ver=None):
        if ver is not None:
            # identity as of the moment a held dataset was connected
            now, self.ver = self.ver, ver
            try:
                return self.expect_load(t, run, i, j, k)
            finally:
                self.ver = now
        ident = self.ident(i, j, k)
        exact = self.model.get((run, t) + ident)
        if exact is not None:
            return ('loaded', exact[0], ident[-1])
        runs = [key[0] for key in self.model
                if key[1] == t and key[2:] == ident]
        if runs:
            return ('loaded', self.model[(max(runs), t) + ident][0], ident[-1])
        return ('untouched', None)

    def register(self, i, worker):
        '''dawgie.db.update(): version registration of everything of alg i'''
        alg = self.make_alg(i, None)
        bot = self.make_bot(i, 0, '__none__', alg)

        def go():
            for sv in alg.state_vectors():
                for vn in sv:
                    self.db.update(bot, alg, sv, vn, sv[vn])

        if worker:
            with self.rig.worker_side():
                go()
        else:
            go()

    def register_with_write_fault(self, i, worker):
        '''a registration during which one write to a catalogue table fails
        (disk full): the error surfaces, the caller retries'''
        import shelve

        real = shelve.Shelf.__setitem__
        armed = [1]
        hit = [0]

        def setitem(shelf, key, value):
            if armed[0] and not str(key).startswith('('):
                armed[0] = 0
                hit[0] = 1
                raise OSError(28, 'No space left on device (injected)')
            return real(shelf, key, value)

        shelve.Shelf.__setitem__ = setitem
        try:
            try:
                self.register(i, worker)
            except OSError:
                pass
        finally:
            shelve.Shelf.__setitem__ = real
            from dawgie.db.shelve.state import DBI

            DBI()._DBI__reopened = False
        if hit[0]:
            self.register(i, worker)  # the retry
        return bool(hit[0])

    # ---- operations (foreman side)

    def remove(self, run, t, i, j, k):
        a = self.pool[i]
        s = a['svs'][j]
        self.db.remove(run, t, a['task'], a['name'], s['name'], s['vals'][k])
        gone = [key for key in self.model
                if key[0] == run and key[1] == t and key[2] == a['task']
                and key[3] == a['name'] and key[5] == s['name']
                and key[7] == s['vals'][k]]
        for key in gone:
            del self.model[key]
        return gone

    def worm(self, req):
        '''dawgie.db.tools.worm.consume(run, target, task, alg, sv, value):
        None = any; removes every matching prime entry, nothing else'''
        import dawgie.db.tools.worm as worm

        worm.consume(*req)
        self.db.open()  # the tool closes the database when it is done
        if all(x is None for x in req):
            return []
        gone = [key for key in self.model
                if all(e is None or i == e for i, e in zip(
                    (key[0], key[1], key[2], key[3], key[5], key[7]), req))]
        for key in gone:
            del self.model[key]
        return gone

    def reopen(self):
        self.rig.reopen_cycle()
        self.reopens += 1

    def visit_other_database(self):
        '''the process closes this database, works on another one - new,
        filled here with the same catalogue names in the opposite order, so
        that every table ends up with the same size - closes it and comes
        back.  Returns True when some table had two or more names.'''
        import shutil

        import dawgie.context
        from dawgie.db.shelve import util
        from dawgie.db.shelve.state import DBI

        c = dawgie.context
        here = c.db_path
        other = here + '.other'
        tables, indices = self.tables()
        names = {tn: list(getattr(indices, tn))
                 for tn in ('target', 'task', 'alg', 'state', 'value')}
        self.db.close()
        try:
            shutil.rmtree(other, ignore_errors=True)
            os.mkdir(other)
            c.db_path = other
            self.db.open()
            for tn, lst in names.items():
                for name in reversed(lst):
                    # (the stored form already carries parent and version)
                    util.append(name, getattr(DBI().tables, tn),
                                getattr(DBI().indices, tn))
            self.db.close()
        finally:
            c.db_path = here
            shutil.rmtree(other, ignore_errors=True)
            self.db.open()
        return any(len(v) > 1 for v in names.values())

    def purge(self):
        '''python -m dawgie.db.tools.purge on the closed store'''
        import dawgie.context

        self.db.close()
        argv = sys.argv
        sys.argv = ['purge', '-l', 'purge.log']
        saved = {k: v for k, v in vars(dawgie.context).items()
                 if not k.startswith('__') and isinstance(
                     v, (str, int, bool, float, type(None)))}
        os.environ['DAWGIE_DOCKERIZED_AE_GIT_REVISION'] = 'rev-0'
        try:
            runpy.run_module('dawgie.db.tools.purge', run_name='__main__')
        except SystemExit:
            pass
        finally:
            sys.argv = argv
            del os.environ['DAWGIE_DOCKERIZED_AE_GIT_REVISION']
            for k, v in saved.items():
                setattr(dawgie.context, k, v)
        import logging

        for h in list(logging.getLogger().handlers):
            logging.getLogger().removeHandler(h)
            h.close()
        self.db.close()
        self.db.open()
        live = {name for _c, name in self.model.values()}
        if self.model:
            self.blobs &= live

    # ---- observations

    def tables(self):
        from dawgie.db.shelve.state import DBI

        return DBI().tables, DBI().indices

    def prime(self):
        from dawgie.db.shelve import util
        from dawgie.db.shelve.state import DBI

        return {k: v for k, v in zip(util.prime_keys(DBI().tables.prime),
                                     DBI().tables.prime.values())}


def _db_dir(self, sub):
    return os.path.join(self.root, sub)


rig.ShelveRig.db_dir = _db_dir


# --------------------------------------------------------------------------
# invariants shared by C06-C08


def check_blobs(store, out, where):
    '''every prime entry names an existing file that hashes to its name;
    no two files with equal bytes (C07)'''
    d = store.rig.db_dir('dbs')
    names = set(os.listdir(d))
    seen = {}
    for fn in sorted(names):
        p = os.path.join(d, fn)
        if not os.path.isfile(p):
            continue
        with open(p, 'rb') as f:
            raw = f.read()
        want = hashlib.md5(raw).hexdigest() + '_' + hashlib.sha1(raw).hexdigest()
        if fn != want:
            out.fail('blob/name-is-not-digest-of-bytes',
                     f'{where}: {fn} holds bytes hashing to {want}')
        if raw in seen:
            out.fail('blob/identical-content-kept-twice',
                     f'{where}: {fn} and {seen[raw]}')
        seen[raw] = fn
    for key, name in store.prime().items():
        if name not in names:
            out.fail('catalogue/dangling-reference',
                     f'{where}: prime entry {key} -> {name} but no such file '
                     'in the store')
            break


def check_catalogue(store, out, where):
    '''ids gap free and stable, index consistent, chain resolves (C08)'''
    from dawgie.db.shelve import util

    tables, indices = store.tables()
    for tn in ('target', 'task', 'alg', 'state', 'value'):
        tab = dict(getattr(tables, tn))
        idx = list(getattr(indices, tn))
        ids = sorted(tab.values())
        if ids != list(range(len(ids))):
            out.fail(f'catalogue/ids-not-0..n-1@{tn}', f'{where}: ids={ids}')
            continue
        if len(idx) != len(tab) or any(tab.get(n) != i
                                       for i, n in enumerate(idx)):
            out.fail(f'catalogue/index-differs-from-table@{tn}',
                     f'{where}: index={idx} table={tab}')
    for tn, ptn in (('alg', 'task'), ('state', 'alg'), ('value', 'state')):
        n = len(getattr(tables, ptn))
        for name in getattr(tables, tn):
            parent = util.dissect(name)[0]
            if parent is None or not 0 <= parent < n:
                out.fail(f'catalogue/parent-does-not-resolve@{tn}',
                         f'{where}: {name} names parent {parent}, {ptn} has '
                         f'{n} entries')
    sizes = {tn: len(getattr(tables, tn))
             for tn in ('target', 'task', 'alg', 'state', 'value')}
    _t, ind = tables, indices
    for key in store.prime():
        run, tid, tsk, aid, sid, vid = key
        okay = (0 <= tid < sizes['target'] and 0 <= tsk < sizes['task']
                and 0 <= aid < sizes['alg'] and 0 <= sid < sizes['state']
                and 0 <= vid < sizes['value'])
        if okay:
            okay = (util.dissect(ind.value[vid])[0] == sid
                    and util.dissect(ind.state[sid])[0] == aid
                    and util.dissect(ind.alg[aid])[0] == tsk)
        if not okay:
            out.fail('catalogue/prime-entry-does-not-resolve',
                     f'{where}: {key}')
            break
    runs = [k[0] for k in store.prime()]
    nxt = store.db.next()
    if runs and nxt <= max(runs):
        out.fail('catalogue/next-run-id-not-greater',
                 f'{where}: next()={nxt} stored max={max(runs)}')


def snapshot_ids(store):
    tables, _i = store.tables()
    return {tn: dict(getattr(tables, tn))
            for tn in ('target', 'task', 'alg', 'state', 'value')}


def check_ids_stable(before, store, out, where):
    after = snapshot_ids(store)
    for tn, tab in before.items():
        for name, i in tab.items():
            if after[tn].get(name) != i:
                out.fail(f'catalogue/id-changed@{tn}',
                         f'{where}: {name} had id {i}, now '
                         f'{after[tn].get(name)}')
                return


def check_model_matches_prime(store, out, where):
    '''the prime table holds exactly the model's entries (dissected names)'''
    from dawgie.db.shelve import util

    _t, ind = store.tables()
    got = {}
    for key, name in store.prime().items():
        run, tid, tsk, aid, sid, vid = key
        try:
            a = util.dissect(ind.alg[aid])
            s = util.dissect(ind.state[sid])
            v = util.dissect(ind.value[vid])
            ident = (run, util.dissect(ind.target[tid])[1],
                     util.dissect(ind.task[tsk])[1],
                     a[1], tuple(a[2]._get_ver()), s[1],
                     tuple(s[2]._get_ver()), v[1], tuple(v[2]._get_ver()))
        except (IndexError, AttributeError):
            continue  # reported by check_catalogue
        got[ident] = name
    want = {k: v[1] for k, v in store.model.items()}
    if got != want:
        missing = sorted(set(want) - set(got))[:2]
        extra = sorted(set(got) - set(want))[:2]
        wrong = [k for k in want if k in got and got[k] != want[k]][:2]
        out.fail(
            'catalogue/entries-differ-from-model'
            + ('@lost' if missing else '@extra' if extra else '@blob'),
            f'{where}: missing={missing} extra={extra} wrong-blob={wrong}',
        )


# --------------------------------------------------------------------------
# generators


def pools(prefix_families):
    if prefix_families:
        return {
            'tasks': ['tk', 'tk2'],
            # (also names shared across levels: an algorithm called like its
            # task, a value called like its state vector)
            'algs': ['Alg', 'Alg2', 'Alg20', 'tk'],
            'svs': ['s', 's1'],
            'vals': ['v', 'v1', 's'],
            'targets': ['T', 'T1', 'TT', 'U'],
        }
    return {
        'tasks': ['tk', 'uw'],
        'algs': ['alpha', 'beta', 'gamma'],
        'svs': ['s', 't'],
        'vals': ['v', 's', 'x'],
        'targets': ['T1', 'T2', 'U3'],
    }


_ver = st.tuples(st.integers(1, 2), st.integers(0, 1),
                 st.integers(0, 1)).map(list)


@st.composite
def alg_pool(draw, prefix_families=False, max_algs=3):
    p = pools(prefix_families)
    n = draw(st.integers(1, max_algs))
    out = []
    used = set()
    for _ in range(n):
        task = draw(st.sampled_from(p['tasks']))
        free = [a for a in p['algs'] if (task, a) not in used]
        if not free:
            continue
        name = draw(st.sampled_from(free))
        used.add((task, name))
        nsv = draw(st.integers(1, 2))
        svs = []
        for j in range(nsv):
            nv = draw(st.integers(1, 3))
            svs.append({
                'name': p['svs'][j],
                'ver': draw(_ver),
                'vals': p['vals'][:nv],
                'vers': [draw(_ver) for _ in range(nv)],
                # value classes derived from the class of the first value
                'inh': [0] + [int(draw(st.integers(0, 2)) == 0)
                              for _ in range(nv - 1)],
            })
        out.append({'task': task, 'name': name, 'ver': draw(_ver),
                    'svs': svs})
    return out


_leaf = st.one_of(
    st.integers(-5, 5), st.text('ab', max_size=3), st.booleans(), st.none(),
    st.floats(allow_nan=False, allow_infinity=False, width=32),
)
big_content = st.tuples(st.sampled_from([0, 0, 1, 1, 2]),
                        st.integers(0, 2)).map(
    lambda t: {'__big__': list(t)})
content = st.recursive(
    _leaf,
    lambda ch: st.one_of(st.lists(ch, max_size=3),
                         st.dictionaries(st.text('kx', min_size=1,
                                                 max_size=2), ch, max_size=3)),
    max_leaves=6,
)
