'''Shelve rig and in-process connections (DESIGN.md 3.2 / 3.5).

* ``security.connect`` returns a LoopSocket whose peer is a *real* protocol
  object (comms.Worker for the database port, farm.Hand for the farm port)
  attached to a recording transport: the same request bytes reach the same
  ``dataReceived``/``do`` code, only TCP is gone.
* listening sockets are no-ops.
* ``comms.acquire/release`` grant immediately (as Test/test_13 does) unless
  the caller asks for the real protocol (C13).
'''

import contextlib
import os

from . import core, world

DB_PORT = 18083
FARM_PORT = 18081
_INSTALLED = [False]
_REAL = {}
PUMP = [None]  # optional callable run when a LoopSocket would block
SEGMENT = [0]  # > 0: what a peer sends arrives in pieces of that many bytes
# [n, kind]: the n-th connection to the database server from now on breaks
# once: 'request' = the command never reaches the server, 'reply' = the server
# executes it but its answer is lost (both surface as ConnectionResetError)
CONN_FAULT = [None]


class LoopSocket:
    def __init__(self, proto):
        self.proto = proto
        self.transport = world.Transport()
        proto.makeConnection(self.transport)
        self.rpos = 0
        self.closed = False

    def sendall(self, b):
        if self.transport.closed:
            return None
        if SEGMENT[0] > 0:
            # TCP delivers a byte stream: a message may arrive in pieces
            r = None
            for i in range(0, len(b), SEGMENT[0]):
                if self.transport.closed:
                    break
                r = self.proto.dataReceived(b[i:i + SEGMENT[0]])
            return r
        return self.proto.dataReceived(b)

    def recv(self, n):
        if self.rpos >= len(self.transport.data) and PUMP[0] is not None:
            PUMP[0](self)
        data = self.transport.data[self.rpos : self.rpos + n]
        self.rpos += len(data)
        if not data:
            raise core.HarnessError('LoopSocket.recv would block forever')
        return data

    def close(self, clean=True):
        '''the peer goes away: cleanly (FIN -> ConnectionDone) or not
        (reset / timeout -> ConnectionLost), as Twisted reports it'''
        if not self.closed:
            from twisted.internet import error
            from twisted.python import failure

            self.closed = True
            self.transport.closed = True
            reason = failure.Failure(
                error.ConnectionDone() if clean else error.ConnectionLost())
            self.proto.connectionLost(reason)

    def shutdown(self, _how):
        self.close()


class _BrokenSocket(LoopSocket):
    '''a connection that is reset once (see CONN_FAULT)'''

    def __init__(self, proto, kind):
        LoopSocket.__init__(self, proto)
        self.kind = kind
        self.fired = False

    def sendall(self, b):
        if self.kind == 'request':
            self.fired = True
            self.close(clean=False)
            raise ConnectionResetError('connection reset (injected)')
        return LoopSocket.sendall(self, b)

    def recv(self, n):
        self.fired = True
        self.close(clean=False)
        raise ConnectionResetError('connection reset (injected)')


class _FakeCert:
    def options(self, *_a, **_k):
        return None


def tls_mode(on=True):
    '''TLS deployment mode: no legacy handshake wrapper on the protocols'''
    import dawgie.security as sec

    sec._myself.clear()
    if on:
        sec._myself.update(
            {'file': 'verif.pem', 'name': 'verif', 'private': _FakeCert(),
             'public': []}
        )


def connect(address):
    import dawgie.db.shelve.comms as comms
    import dawgie.pl.farm as farm

    port = int(address[1])
    peer = world.Address('client', 40000)
    if port == DB_PORT:
        f = CONN_FAULT[0]
        if f is not None:
            f[0] -= 1
            if f[0] < 0:
                CONN_FAULT[0] = None
                return _BrokenSocket(comms.Worker(peer), f[1])
        return LoopSocket(comms.Worker(peer))
    if port == FARM_PORT:
        return LoopSocket(farm.Hand(peer))
    raise core.HarnessError(f'no in-process peer for {address}')


def install(real_lock=False):
    '''install the in-process environment (idempotent)'''
    import dawgie.context
    import dawgie.db.shelve.comms as comms
    import dawgie.security as sec
    import twisted.internet.reactor as reactor

    if not _INSTALLED[0]:
        _REAL['connect'] = sec.connect
        _REAL['acquire'] = comms.acquire
        _REAL['release'] = comms.release
        _REAL['listenTCP'] = reactor.listenTCP
        _REAL['listenSSL'] = reactor.listenSSL
        _INSTALLED[0] = True
    sec.connect = connect
    reactor.listenTCP = lambda *a, **k: None
    reactor.listenSSL = lambda *a, **k: None
    dawgie.context.db_port = DB_PORT
    dawgie.context.farm_port = FARM_PORT
    dawgie.context.db_host = 'localhost'
    tls_mode(True)
    if real_lock:
        comms.acquire = _REAL['acquire']
        comms.release = _REAL['release']
    else:
        comms.acquire = lambda name: True
        comms.release = lambda s: True


class ShelveRig:
    '''a fresh shelve store in a private directory'''

    def __init__(self, real_lock=False):
        import dawgie.context
        import dawgie.db

        install(real_lock)
        self.root = world.fresh_dir('db')
        for sub in ('db', 'dbs', 'stg', 'logs', 'per'):
            os.mkdir(os.path.join(self.root, sub))
        c = dawgie.context
        c.db_impl = 'shelve'
        c.db_name = 'verif'
        c.db_path = os.path.join(self.root, 'db')
        c.db_rotate_path = c.db_path
        c.data_dbs = os.path.join(self.root, 'dbs')
        c.data_stg = os.path.join(self.root, 'stg')
        c.data_log = os.path.join(self.root, 'logs')
        c.data_per = os.path.join(self.root, 'per')  # resources diary
        c.db_lock = False
        self.db = dawgie.db
        self.db.close()
        self.db.open()

    def reopen_cycle(self):
        self.db.close()
        self.db.open()

    @contextlib.contextmanager
    def worker_side(self):
        '''act as a remote worker: db calls go through the Connector'''
        from dawgie.db.shelve.state import DBI

        DBI().reopen()
        try:
            yield
        finally:
            # the worker process would exit here; the foreman's tables stay
            DBI()._DBI__reopened = False  # pylint: disable=protected-access

    def close(self):
        try:
            self.db.close()
        finally:
            world.rm(self.root)
