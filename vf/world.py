'''Environment stand-ins shared by all checks (DESIGN.md section 3.2).

Only the environment is replaced (paths, renderer, clock, transports); the
DAWGIE code under test runs unmodified from /repo/Python.
'''

import atexit
import datetime
import logging
import os
import shutil
import sys
import tempfile
import types

from . import core

TMP_ROOT = None


def _pick_tmp():
    base = os.environ.get('VERIF_TMP')
    if not base:
        for cand in ('/dev/shm', tempfile.gettempdir()):
            if os.path.isdir(cand) and os.access(cand, os.W_OK):
                base = cand
                break
    return tempfile.mkdtemp(prefix=f'dawgie-verif-{os.getpid()}-', dir=base)


def boot():
    '''import dawgie from the working tree, silence logging, stub renderer'''
    global TMP_ROOT  # pylint: disable=global-statement
    if TMP_ROOT is not None:
        return TMP_ROOT
    if core.REPO_PY not in sys.path[:3]:
        sys.path.insert(0, core.REPO_PY)
    os.environ.setdefault('USERNAME', 'verif')
    import dawgie  # pylint: disable=import-outside-toplevel

    if not os.path.abspath(dawgie.__file__).startswith(core.REPO_PY + os.sep):
        raise core.HarnessError(
            f'dawgie imported from {dawgie.__file__}, not {core.REPO_PY}'
        )
    logging.disable(logging.CRITICAL)
    TMP_ROOT = _pick_tmp()
    atexit.register(shutil.rmtree, TMP_ROOT, True)
    import dawgie.context  # pylint: disable=import-outside-toplevel

    fe = os.path.join(TMP_ROOT, 'fe')
    os.makedirs(fe, exist_ok=True)
    dawgie.context.fe_path = fe
    dawgie.context.site_path = ''
    dawgie.context.git_rev = 'rev-0'
    stub_dot()
    return TMP_ROOT


_REAL_DOT_WRITE = None


def stub_dot(enable=True):
    '''pydot.Dot.write spawns the "dot" binary (0.3 s); not part of any
    property, so write a stub file instead.'''
    global _REAL_DOT_WRITE  # pylint: disable=global-statement
    import pydot  # pylint: disable=import-outside-toplevel

    if _REAL_DOT_WRITE is None:
        _REAL_DOT_WRITE = pydot.Dot.write

    def write(self, path, prog=None, format='raw', encoding=None):
        # pylint: disable=redefined-builtin,unused-argument
        with open(path, 'wb') as f:
            f.write(b'<svg/>')
        return True

    pydot.Dot.write = write if enable else _REAL_DOT_WRITE


_COUNTER = [0]


def fresh_dir(prefix='case'):
    _COUNTER[0] += 1
    d = os.path.join(TMP_ROOT, f'{prefix}{_COUNTER[0]}')
    os.makedirs(d)
    return d


def rm(path):
    shutil.rmtree(path, ignore_errors=True)


# --------------------------------------------------------------------------
# clock


class Clock:
    '''the harness clock: a UTC datetime the case controls'''

    def __init__(self, now=None):
        self.now = now or datetime.datetime(2024, 1, 1, tzinfo=datetime.UTC)

    def advance(self, seconds):
        self.now = self.now + datetime.timedelta(seconds=seconds)


class TClock(Clock):
    '''wall clock tied to a twisted task.Clock that stands in for the reactor:
    advancing fires the delayed calls one by one, each at its own due time'''

    def __init__(self, now):
        from twisted.internet import task

        self.t0 = now
        self.tc = task.Clock()
        super().__init__(now)

    @property
    def now(self):
        return self.t0 + datetime.timedelta(seconds=self.tc.seconds())

    @now.setter
    def now(self, _v):
        pass

    def advance(self, seconds):
        target = self.tc.seconds() + seconds
        while True:
            calls = sorted(self.tc.getDelayedCalls(), key=lambda c: c.getTime())
            if not calls or calls[0].getTime() > target:
                break
            self.tc.advance(max(0.0, calls[0].getTime() - self.tc.seconds()))
        self.tc.advance(max(0.0, target - self.tc.seconds()))


class _AnyDateTime(type):
    def __instancecheck__(cls, obj):
        return isinstance(obj, datetime.datetime)


def fake_datetime_class(clock: Clock):
    class FakeDateTime(datetime.datetime, metaclass=_AnyDateTime):
        @classmethod
        def now(cls, tz=None):
            n = clock.now
            r = cls(
                n.year,
                n.month,
                n.day,
                n.hour,
                n.minute,
                n.second,
                n.microsecond,
                tzinfo=n.tzinfo,
            )
            if tz is None:
                return r.replace(tzinfo=None)
            return r.astimezone(tz)

    return FakeDateTime


def fake_datetime_module(clock: Clock):
    m = types.ModuleType('datetime')
    m.__dict__.update(
        {k: v for k, v in datetime.__dict__.items() if not k.startswith('__')}
    )
    m.datetime = fake_datetime_class(clock)
    return m


# --------------------------------------------------------------------------
# transports


class Address:
    def __init__(self, host='h0', port=0):
        self.host = host
        self.port = port

    def __repr__(self):
        return f'{self.host}:{self.port}'


class Transport:
    '''records writes; honours "nothing is delivered after loseConnection"'''

    def __init__(self):
        self.data = b''
        self.writes = []
        self.closed = False
        self.late = b''  # bytes written after the connection was closed

    def write(self, b):
        if self.closed:
            self.late += b
            return
        self.data += b
        self.writes.append(b)

    def loseConnection(self):  # pylint: disable=invalid-name
        self.closed = True

    def getPeer(self):  # pylint: disable=invalid-name
        return Address()

    def getHost(self):  # pylint: disable=invalid-name
        return Address()


def frames(data: bytes):
    '''split a byte string into the length-prefixed pickles it contains'''
    import pickle  # pylint: disable=import-outside-toplevel
    import struct  # pylint: disable=import-outside-toplevel

    out = []
    while len(data) >= 4:
        n = struct.unpack('>I', data[:4])[0]
        if len(data) < 4 + n:
            break
        out.append(pickle.loads(data[4 : 4 + n]))
        data = data[4 + n :]
    return out


def frame(obj) -> bytes:
    import pickle  # pylint: disable=import-outside-toplevel
    import struct  # pylint: disable=import-outside-toplevel

    b = pickle.dumps(obj, pickle.HIGHEST_PROTOCOL)
    return struct.pack('>I', len(b)) + b


# --------------------------------------------------------------------------
# stub database backend (for checks where the store is irrelevant)


class InjectedFault(RuntimeError):
    '''a transient fault of the environment injected by the harness'''


class InjectedIOFault(OSError, InjectedFault):
    '''the same for file I/O (what open()/write() would raise)'''


class StubDB:
    '''registered as dawgie.db.verifstub; dawgie.db dispatches to it when
    dawgie.context.db_impl == 'verifstub' '''

    def __init__(self):
        self.target_list = []
        self.next_id = 1
        self.next_calls = 0
        self.issued = []
        self.fail_next = 0
        self.fail_skip = 0
        self.fail_targets = 0
        self.faults = 0
        self.version_tables = ({}, {}, {}, {})

    def install(self):
        import dawgie.context  # pylint: disable=import-outside-toplevel

        m = types.ModuleType('dawgie.db.verifstub')
        m.targets = self._targets
        m.next = self._next
        m.versions = lambda: self.version_tables
        m.open = lambda: None
        m.close = lambda: None
        m.reopen = lambda: True
        m.add = self._add
        m.metrics = lambda *a: []
        sys.modules['dawgie.db.verifstub'] = m
        dawgie.context.db_impl = 'verifstub'
        return self

    def _add(self, name):
        if name not in self.target_list:
            self.target_list.append(name)
        return True

    def _targets(self):
        if self.fail_targets:
            self.fail_targets -= 1
            self.faults += 1
            raise InjectedFault('database unavailable (injected)')
        return list(self.target_list)

    def _next(self):
        if self.fail_next and self.fail_skip:
            self.fail_skip -= 1  # the fault hits a later call of the batch
        elif self.fail_next:
            self.fail_next -= 1
            self.faults += 1
            raise InjectedFault('database unavailable (injected)')
        self.next_calls += 1
        self.next_id += 1
        self.issued.append(self.next_id - 1)
        return self.next_id - 1
