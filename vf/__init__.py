'''Property-based verification machinery for DAWGIE (see /verif/DESIGN.md).'''
