'''One shard of a check: a fresh interpreter that runs a slice of the budget.

usage: python -m vf.shard <ID> <tier> <seed> <shard> <nshards> <out.json>
'''

import importlib
import json
import os
import sys
import time
import traceback

from . import core, world


def load_replays(pid):
    d = os.path.join(core.VERIF, 'replays')
    out = []
    if os.path.isdir(d):
        for fn in sorted(os.listdir(d)):
            if fn.startswith(pid + '-') and fn.endswith('.json'):
                with open(os.path.join(d, fn), 'rt', encoding='utf-8') as f:
                    out.append((fn, json.load(f)))
    return out


def main(argv):
    pid, tier, seed, shard, nshards, outfn = argv[:6]
    seed, shard, nshards = int(seed), int(shard), int(nshards)
    t0 = time.time()
    cap = float(os.environ.get('VERIF_TIME_CAP', '0')) or (
        240.0 if tier == 'quick' else 3000.0
    )
    shrink_s = 25.0 if tier == "quick" else 180.0
    deadline = t0 + cap
    result = {'ok': False}
    try:
        world.boot()
        mod = importlib.import_module(f'vf.props.{pid.lower()}')
        stats = core.Stats(pid)
        parts = {p.name: p for p in mod.parts(tier)}
        # regression tier: every saved replay first (shard 0 only)
        if shard == 0:
            for fn, rep in load_replays(pid):
                part = parts.get(rep.get('part'))
                if part is None:
                    continue
                try:
                    core.run_one(part, rep['case'], stats, counting=False)
                    stats.part(part.name)  # make sure it exists
                except core.Violation:
                    stats.failure['from_replay'] = fn
                    break
        for part in parts.values():
            if stats.failure is not None:
                break
            if part.enum is not None:
                core.drive_enum(part, shard, nshards, stats, deadline)
            if stats.failure is not None:
                break
            if part.strategy is not None and part.cases > 0:
                n = (part.cases + nshards - 1) // nshards
                core.drive_strategy(
                    part, n, core.derive(seed, shard), stats, deadline, shrink_s
                )
        result = stats.as_json()
        result['ok'] = True
    except BaseException as exc:  # pylint: disable=broad-except
        result['ok'] = False
        result['error'] = ''.join(
            traceback.format_exception(type(exc), exc, exc.__traceback__)
        )[-6000:]
    result['wall_s'] = time.time() - t0
    with open(outfn, 'wt', encoding='utf-8') as f:
        json.dump(result, f, default=str)
    # skip interpreter teardown of twisted/threads: results are on disk
    sys.stdout.flush()
    sys.stderr.flush()
    if world.TMP_ROOT:
        world.rm(world.TMP_ROOT)
    os._exit(0 if result['ok'] else 2)  # pylint: disable=protected-access


if __name__ == '__main__':
    main(sys.argv[1:])
