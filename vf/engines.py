'''Synthetic algorithm engines (DESIGN.md 3.3).

An engine *spec* is plain JSON-able data.  ``materialise`` writes it to disk
as a Python package in either of the two factory styles found under Test/
(Test/ae: explicit factories returning dawgie.Task/Analysis/Regress
subclasses; Test/nae: placeholder factories that dawgie.pl.scan replaces with
dawgie.base.Factories).  ``reference_graph`` computes the dependency relation
from the spec alone; it never looks at dawgie.pl.dag.
'''

import contextlib
import os
import sys
import warnings

from hypothesis import strategies as st

from . import world

PKG_NAMES = ['p', 'p1', 'pq', 'q']
ALG_NAMES = ['A', 'A1', 'A10', 'AB', 'B', 'B2', 'C', 'D', 'E', 'F']
SV_NAMES = ['s', 's1', 't']
VAL_NAMES = ['v', 'v1', 'w']
KINDS = ['task', 'analysis', 'regress']

_ver = st.tuples(
    st.integers(1, 3), st.integers(0, 2), st.integers(0, 2)
).map(list)
_time = st.tuples(
    st.integers(0, 23), st.integers(0, 59), st.integers(0, 59)
).map(list)
_moment = st.one_of(
    st.just({'boot': True}),
    st.fixed_dictionaries({'dow': st.integers(0, 6), 'time': _time}),
    st.fixed_dictionaries({'dom': st.integers(1, 31), 'time': _time}),
    st.fixed_dictionaries(
        {
            'day': st.tuples(
                st.integers(2023, 2026), st.integers(1, 12), st.integers(1, 28)
            ).map(list),
            'time': _time,
        }
    ),
)


@st.composite
def specs(
    draw,
    max_algs=8,
    max_pkgs=4,
    kinds=('task', 'task', 'task', 'analysis', 'analysis', 'regress'),
    feedback=True,
    events=False,
    styles=('legacy', 'registry'),
    min_algs=1,
    levels=('alg', 'sv', 'val'),
    where=False,
    own=False,
    dotted=False,
    flags=False,
    selfref=False,
    twins=False,
):
    n_pkgs = draw(st.integers(1, max_pkgs))
    n_algs = draw(st.integers(min_algs, max_algs))
    pkgs = PKG_NAMES[:n_pkgs]
    algs = []
    used = {i: set() for i in range(n_pkgs)}
    for idx in range(n_algs):
        pkg = draw(st.integers(0, n_pkgs - 1))
        free = [n for n in ALG_NAMES if n not in used[pkg]]
        name = draw(st.sampled_from(free))
        used[pkg].add(name)
        kind = draw(st.sampled_from(kinds))
        nsv = draw(st.integers(1, 3))
        svs = []
        for j in range(nsv):
            nv = draw(st.integers(1, 3))
            svs.append(
                {
                    'name': SV_NAMES[j],
                    'ver': draw(_ver),
                    'vals': [
                        {'name': VAL_NAMES[k], 'ver': draw(_ver)}
                        for k in range(nv)
                    ],
                }
            )
        inputs = []
        if idx:
            tos = draw(
                st.lists(
                    st.integers(0, idx - 1),
                    unique=True,
                    min_size=draw(st.sampled_from([0, 1, 1, 1])),
                    max_size=min(3, idx),
                )
            )
            for to in sorted(tos):
                lv = [l for l in levels if kind == 'task' or l != 'alg']
                level = draw(st.sampled_from(lv or ['sv']))
                ref = {'to': to, 'level': level}
                if level in ('sv', 'val'):
                    ref['sv'] = draw(st.integers(0, len(algs[to]['svs']) - 1))
                if level == 'val':
                    ref['val'] = draw(
                        st.integers(
                            0, len(algs[to]['svs'][ref['sv']]['vals']) - 1
                        )
                    )
                inputs.append(ref)
        algs.append(
            {
                'pkg': pkg,
                'kind': kind,
                'name': name,
                'ver': draw(_ver),
                'svs': svs,
                'inputs': inputs,
                'feedback': [],
                'events': (
                    draw(st.lists(_moment, max_size=2))
                    if events and draw(st.integers(0, 2)) == 0
                    else []
                ),
                # where the algorithm asks to be run (None: not overridden)
                'where': (draw(st.sampled_from(['cloud', 'cluster', 'auto']))
                          if where and draw(st.integers(0, 2)) == 0 else None),
            }
        )
    if selfref:
        # an algorithm may read back its own previous output (it lists one
        # of its own values among its inputs, as Test/ae's feedback models
        # do); it needs another input to be reachable in the task tree
        for idx, a in enumerate(algs):
            if a['inputs'] and draw(st.integers(0, 3)) == 0:
                j = draw(st.integers(0, len(a['svs']) - 1))
                k = draw(st.integers(0, len(a['svs'][j]['vals']) - 1))
                a['inputs'].append({'to': idx, 'level': 'val', 'sv': j,
                                    'val': k})
    if feedback:
        for idx in range(n_algs - 1):
            if draw(st.integers(0, 5)) == 0:
                to = draw(st.integers(idx + 1, n_algs - 1))
                level = draw(st.sampled_from(['sv', 'val']))
                ref = {'to': to, 'level': level}
                ref['sv'] = draw(st.integers(0, len(algs[to]['svs']) - 1))
                if level == 'val':
                    ref['val'] = draw(
                        st.integers(
                            0, len(algs[to]['svs'][ref['sv']]['vals']) - 1
                        )
                    )
                algs[idx]['feedback'].append(ref)
    style = draw(st.sampled_from(styles))
    placeholders = []
    for i in range(n_pkgs):
        placeholders.append(
            sorted(
                draw(
                    st.sets(
                        st.sampled_from(
                            ['analysis', 'events', 'regress', 'task']
                        )
                    )
                )
            )
            if style == 'registry'
            else []
        )
    spec = {
        'style': style,
        'pkgs': pkgs,
        'placeholders': placeholders,
        'algs': algs,
    }
    if own and style == 'registry':
        # the documented extension point of scan.advanced_factories: a task
        # package of a class-scanned engine may bring its own factory function
        spec['own'] = []
        for i in range(n_pkgs):
            here = sorted({a['kind'] for a in algs if a['pkg'] == i})
            mine = (draw(st.lists(st.sampled_from(here), unique=True).map(sorted))
                    if here and draw(st.integers(0, 1)) == 0 else [])
            spec['own'].append(mine)
            placeholders[i] = [k for k in placeholders[i] if k not in mine]
    if flags:
        # a package may spell out that it is *not* to be ignored
        spec['ignore_flag'] = [
            draw(st.sampled_from([None, None, 'DAWGIE_IGNORE',
                                  'dawgie_ignore' if style == 'legacy'
                                  else 'DAWGIE_IGNORE']))
            for _i in range(n_pkgs)]
    if twins and style == 'registry':
        # two classes of one task package with the same class name, in
        # different modules (bot.py / extra.py)
        for i, a in enumerate(algs):
            taken = {x.get('twin') for x in algs}
            mates = [k for k in range(i) if algs[k]['pkg'] == a['pkg']
                     and algs[k].get('twin') is None and k not in taken]
            if mates and draw(st.integers(0, 2)) == 0:
                a['twin'] = draw(st.sampled_from(mates))
    if dotted and draw(st.integers(0, 2)) == 0:
        # the base package may sit below another package (org.engine)
        spec['base_depth'] = 2
    return spec


# --------------------------------------------------------------------------
# reference graph (oracle; computed from the spec alone)


class RefGraph:
    def __init__(self, spec):
        self.spec = spec
        algs = spec['algs']
        self.tag = [f'{spec["pkgs"][a["pkg"]]}.{a["name"]}' for a in algs]
        self.kind = {self.tag[i]: a['kind'] for i, a in enumerate(algs)}
        self.values = {}  # alg tag -> [full value names]
        for i, a in enumerate(algs):
            self.values[self.tag[i]] = [
                f'{self.tag[i]}.{sv["name"]}.{v["name"]}'
                for sv in a['svs']
                for v in sv['vals']
            ]
        self.inputs = {}  # alg tag -> set of full value names declared
        self.fb_inputs = {}
        for i, a in enumerate(algs):
            self.inputs[self.tag[i]] = self._expand(a['inputs'])
            self.fb_inputs[self.tag[i]] = self._expand(a['feedback'])
        # value-level edges parent value -> child value
        self.vedges = set()
        for i in range(len(algs)):
            for pv in self.inputs[self.tag[i]]:
                for cv in self.values[self.tag[i]]:
                    self.vedges.add((pv, cv))
        self.aedges = {(self.trim(p, 2), self.trim(c, 2)) for p, c in self.vedges}
        self.svedges = {(self.trim(p, 3), self.trim(c, 3)) for p, c in self.vedges}
        self.tedges = {
            (self.trim(p, 1), self.trim(c, 1))
            for p, c in self.vedges
        }
        self.parents = {t: set() for t in self.tag}
        self.children = {t: set() for t in self.tag}
        for p, c in self.aedges:
            if p == c:
                continue  # an algorithm reading back its own output
            self.parents[c].add(p)
            self.children[p].add(c)
        self.ancestors = {t: self._closure(t, self.parents) for t in self.tag}
        self.descendants = {
            t: self._closure(t, self.children) for t in self.tag
        }
        # fed-back value -> set of consumer alg tags
        self.feedbacks = {}
        for t in self.tag:
            for v in self.fb_inputs[t]:
                self.feedbacks.setdefault(v, set()).add(t)

    @staticmethod
    def trim(name, n):
        return '.'.join(name.split('.')[:n])

    def _expand(self, refs):
        algs = self.spec['algs']
        out = set()
        for r in refs:
            a = algs[r['to']]
            t = self.tag[r['to']]
            for j, sv in enumerate(a['svs']):
                if r['level'] != 'alg' and r['sv'] != j:
                    continue
                for k, v in enumerate(sv['vals']):
                    if r['level'] == 'val' and r['val'] != k:
                        continue
                    out.add(f'{t}.{sv["name"]}.{v["name"]}')
        return out

    @staticmethod
    def _closure(t, rel):
        seen = set()
        todo = list(rel[t])
        while todo:
            x = todo.pop()
            if x not in seen:
                seen.add(x)
                todo.extend(rel[x])
        return seen

    def roots(self):
        return [t for t in self.tag if not self.inputs[t]]

    def is_analysis(self, tag):
        return self.kind[tag] == 'analysis'

    def has_diamond(self):
        for t in self.tag:
            ps = sorted(self.parents[t])
            for i, a in enumerate(ps):
                for b in ps[i + 1:]:
                    if (self.ancestors[a] | {a}) & (self.ancestors[b] | {b}):
                        return True
        return False

    def max_depth(self):
        depth = {}
        for t in self.tag:  # topological order by construction
            depth[t] = 1 + max([depth[p] for p in self.parents[t]] or [0])
        return max(depth.values()) if depth else 0


# --------------------------------------------------------------------------
# materialise


_BASE_CLASS = {'task': 'Algorithm', 'analysis': 'Analyzer', 'regress': 'Regression'}
_DEP_METHOD = {'task': 'previous', 'analysis': 'traits', 'regress': 'variables'}
_BOT_CLASS = {'task': 'Task', 'analysis': 'Analysis', 'regress': 'Regress'}

_SIG = {
    'task': "prefix: str, ps_hint: int = 0, runid: int = -1, "
            "target: str = '__none__'",
    'analysis': 'prefix: str, ps_hint: int = 0, runid: int = -1',
    'regress': "prefix: str, ps_hint: int = 0, target: str = '__none__'",
}
_ARGS = {
    'task': 'prefix, ps_hint, runid, target',
    'analysis': 'prefix, ps_hint, runid',
    'regress': 'prefix, ps_hint, target',
}
_PLACEHOLDER_RET = {
    'task': 'dawgie.FactoryPlaceholder[dawgie.base.Task]',
    'analysis': 'dawgie.FactoryPlaceholder[dawgie.base.Analysis]',
    'regress': 'dawgie.FactoryPlaceholder[dawgie.base.Regress]',
    'events': 'dawgie.FactoryPlaceholder[list[dawgie.EVENT]]',
}


def _moment_src(m):
    if m.get('boot'):
        return 'boot=True'
    t = 'time=datetime.time({}, {}, {})'.format(*m['time'])
    if 'dow' in m:
        return f'dow={m["dow"]}, {t}'
    if 'dom' in m:
        return f'dom={m["dom"]}, {t}'
    return 'day=datetime.date({}, {}, {}), {}'.format(*m['day'], t)


def _ref_src(base, spec, r, var):
    a = spec['algs'][r['to']]
    pk = spec['pkgs'][a['pkg']]
    fac = f'{base}.{pk}.{a["kind"]}'
    if r['level'] == 'alg':
        return f'dawgie.ALG_REF({fac}, {var})'
    pos = r['sv']
    if a.get('scratch') is not None and pos >= a['scratch'] % (
            len(a['svs']) + 1):
        pos += 1  # an extra (empty) state vector sits in front of it
    item = f'{var}.state_vectors()[{pos}]'
    if r['level'] == 'sv':
        return f'dawgie.SV_REF({fac}, {var}, {item})'
    vn = a['svs'][r['sv']]['vals'][r['val']]['name']
    return f'dawgie.V_REF({fac}, {var}, {item}, {vn!r})'


def _sv_list(i, a):
    '''constructor calls of the algorithm's state vectors; a['scratch'] = k
    puts a state vector that is empty until the algorithm has run (nothing is
    persisted for it) in front of the k-th declared one'''
    out = [f'SV_{i}_{j}()' for j in range(len(a['svs']))]
    if a.get('scratch') is not None:
        out.insert(a['scratch'] % (len(out) + 1), 'SV_scratch()')
    return out


def _loc(spec, i):
    '''module and class name of algorithm i inside its package'''
    k = spec['algs'][i].get('twin')
    if k is not None and spec['style'] == 'registry':
        return f'extra.Alg_{k}'
    return f'bot.Alg_{i}'


def sources(spec, base, viol=None):
    '''{relative path: source text} for the whole engine package.

    ``viol`` (C16) injects one violation of an architecture rule, see
    ``violations``.'''
    v = viol or {}

    def hit(kind, **where):
        return v.get('kind') == kind and all(
            v.get(k) == val for k, val in where.items()
        )

    bdir = base.replace('.', '/')
    files = {f'{bdir}/__init__.py': "'''synthetic algorithm engine'''\n"}
    up = bdir
    while '/' in up:
        up = up.rsplit('/', 1)[0]
        files[f'{up}/__init__.py'] = ''
    algs = spec['algs']
    for pi, pk in enumerate(spec['pkgs']):
        mine = [(i, a) for i, a in enumerate(algs) if a['pkg'] == pi]
        bot = [
            'import datetime',
            'import dawgie',
            'import dawgie.base',
            f'import {base}',
            '',
            '',
            'def _run(alg, ds):',
            "    hook = getattr(dawgie, '_verif_run_hook', None)",
            '    if hook is not None:',
            '        return hook(alg, ds)',
            '    return ds.update()',
            '',
        ]
        extra = []
        for i, a in mine:
            for j, sv in enumerate(a['svs']):
                for k, val0 in enumerate(sv['vals']):
                    vbase = ('dawgie.Version'
                             if hit('value-base', alg=i, sv=j, val=k)
                             else 'dawgie.Value')
                    ctor = ('    def __init__(self, content):'
                            if hit('value-ctor-arg', alg=i, sv=j, val=k)
                            else '    def __init__(self, content=None):')
                    bot += [
                        '',
                        f'class V_{i}_{j}_{k}({vbase}):',
                        ctor,
                        '        dawgie.Value.__init__(self)',
                        '        self.content = content',
                    ]
                    if hit('unpicklable', alg=i, sv=j, val=k):
                        bot.append('        self.fn = lambda: 0')
                    bot += [
                        '        self._version_ = dawgie.VERSION({}, {}, {})'.format(*val0['ver']),
                        '',
                        '    def features(self):',
                        '        return []',
                        '',
                    ]
                svbad = hit('sv-base', alg=i, sv=j)
                bot += [
                    '',
                    f'class SV_{i}_{j}({"dict" if svbad else "dawgie.StateVector"}):',
                    '    def __init__(self):',
                    ('        dict.__init__(self)' if svbad else
                     '        dawgie.StateVector.__init__(self)'),
                    '        self._version_ = dawgie.VERSION({}, {}, {})'.format(*sv['ver']),
                ]
                for k, val in enumerate(sv['vals']):
                    if hit('empty-sv', alg=i, sv=j):
                        continue
                    key = val['name'] + ('.x' if hit('dotted-val', alg=i,
                                                    sv=j, val=k) else '')
                    arg = ('0' if hit('value-ctor-arg', alg=i, sv=j, val=k)
                           else '')
                    bot.append(f'        self[{key!r}] = V_{i}_{j}_{k}({arg})')
                svname = sv['name'] + ('.x' if hit('dotted-sv', alg=i, sv=j)
                                       else '')
                bot += [
                    '',
                    '    def name(self):',
                    f'        return {svname!r}',
                    '',
                    '    def view(self, caller, visitor):',
                    '        return',
                    '',
                ]
            kind = a['kind']
            abase = ('Version' if hit('alg-base', alg=i)
                     else _BASE_CLASS[kind])
            cls_start = len(bot)
            bot += [
                '',
                f'class {_loc(spec, i).split(".")[1]}(dawgie.{abase}):',
            ]
            badmom = v.get('kind', '').startswith('moment-') and v.get('alg') == i
            if spec['style'] == 'registry' and (a['events'] or badmom):
                evl = [f'dawgie.schedule(None, None, {_moment_src(m)})'
                       for m in a['events']]
                if badmom:
                    evl.append('dawgie.EVENT(dawgie.ALG_REF(None, None), '
                               + _BAD_MOMENT[v['kind']] + ')')
                evs = ', '.join(evl)
                bot.append(f'    DAWGIE_SCHEDULE = [{evs}]')
                bot.append('')
            aname = a['name'] + ('.x' if hit('dotted-alg', alg=i) else '')
            bot += [
                '    def __init__(self):',
                '        self._version_ = dawgie.VERSION({}, {}, {})'.format(*a['ver']),
                '        self._svs = [{}]'.format(
                    '' if hit('no-svs', alg=i) else
                    ', '.join(_sv_list(i, a))
                ),
                '        self._deps = None',
                '        self._fbs = None',
                '',
            ]
            if not hit('no-name', alg=i):
                bot += [
                    '    def name(self):',
                    f'        return {aname!r}',
                    '',
                ]
            if a.get('where'):
                bot += [
                    '    def where(self):',
                    f'        return dawgie.Distribution.{a["where"]}',
                    '',
                ]
            if not hit('no-svs-method', alg=i):
                bot += [
                    '    def state_vectors(self):',
                    '        return self._svs',
                    '',
                ]
            for meth, refs, cache in (
                (_DEP_METHOD[kind], a['inputs'], '_deps'),
                ('feedback', a['feedback'], '_fbs'),
            ):
                bot.append(f'    def {meth}(self):')
                bot.append(f'        if self.{cache} is None:')
                imports = sorted(
                    {spec['pkgs'][algs[r['to']]['pkg']] for r in refs}
                )
                for ip in imports:
                    bot.append(f'            import {base}.{ip}.bot')
                    if any(_loc(spec, r['to']).startswith('extra')
                           for r in refs
                           if spec['pkgs'][algs[r['to']]['pkg']] == ip):
                        bot.append(f'            import {base}.{ip}.extra')
                bot.append(f'            self.{cache} = []')
                badref = (v.get('kind', '').startswith('ref-')
                          and v.get('alg') == i and v.get('which') == cache
                          and refs)
                bn = v.get('ref', 0) % len(refs) if badref else -1
                for n, r in enumerate(refs):
                    tp = spec['pkgs'][algs[r['to']]['pkg']]
                    bot.append(
                        f'            i{n} = self' if r['to'] == i else
                        f'            i{n} = {base}.{tp}.{_loc(spec, r["to"])}()'
                    )
                    good = (f'            self.{cache}.append('
                            f'{_ref_src(base, spec, r, f"i{n}")})')
                    if n == bn:
                        ta = algs[r['to']]
                        fac = f'{base}.{tp}.{ta["kind"]}'
                        bad = (f'            self.{cache}.append('
                               + _BAD_REF[v['kind']].format(
                                   fac=fac, impl=f'i{n}',
                                   item=f'i{n}.state_vectors()[0]') + ')')
                        pos = v.get('pos', 'after')
                        if pos == 'before':
                            bot += [bad, good]
                        elif pos == 'replace':
                            bot.append(bad)
                        else:
                            bot += [good, bad]
                    else:
                        bot.append(good)
                bot.append(f'        return self.{cache}')
                bot.append('')
            if kind == 'task':
                bot += ['    def run(self, ds, ps):', '        _run(self, ds)', '']
            elif kind == 'analysis':
                bot += [
                    '    def run(self, aspects):',
                    '        _run(self, aspects.ds())',
                    '',
                ]
            else:
                bot += [
                    '    def run(self, ps, timeline):',
                    '        _run(self, timeline.ds())',
                    '',
                ]
            if _loc(spec, i).startswith('extra'):
                extra += bot[cls_start:]
                del bot[cls_start:]
        kinds_here = sorted({a['kind'] for _i, a in mine})
        init = ['import datetime', 'import dawgie', 'import dawgie.base', '']
        flag = (spec.get('ignore_flag') or [None] * len(spec['pkgs']))[pi]
        if flag:
            init += [f'{flag} = False', '']
        if spec['style'] == 'legacy':
            for kind in kinds_here:
                cls = f'Bot_{kind}'
                if hit('bot-base', pkg=pi, fkind=kind):
                    bot += [
                        '',
                        f'class {cls}:',
                        '    def __init__(self, *args):',
                        '        pass',
                        '',
                        '    def routines(self):',
                        '        return self.list()',
                        '',
                        '    def list(self):',
                    ]
                else:
                    bot += [
                        '',
                        f'class {cls}(dawgie.{_BOT_CLASS[kind]}):',
                        '    def list(self):',
                    ]
                bot += [
                    '        return [{}]'.format(
                        ', '.join(
                            f'Alg_{i}()' for i, a in mine if a['kind'] == kind
                        )
                    ),
                    '',
                ]
                sig = _SIG[kind]
                if hit('factory-arity', pkg=pi, fkind=kind):
                    sig = sig + ', extra: int = 0'
                elif hit('factory-default', pkg=pi, fkind=kind):
                    sig = sig.replace('ps_hint: int = 0', 'ps_hint: int = 1')
                elif hit('factory-annotation', pkg=pi, fkind=kind):
                    sig = sig.replace('prefix: str', 'prefix')
                init += [
                    '',
                    f'def {kind}({sig}):',
                    f'    import {base}.{pk}.bot',
                    '',
                    f'    return {base}.{pk}.bot.{cls}({_ARGS[kind]})',
                    '',
                ]
            evs = [(i, a, m) for i, a in mine for m in a['events']]
            bad = [(i, a) for i, a in mine
                   if v.get('kind', '').startswith('moment-')
                   and v.get('alg') == i]
            if evs or bad:
                init += ['', 'def events():', f'    import {base}.{pk}.bot', '']
                init.append('    return [')
                for i, a, m in evs:
                    init.append(
                        f'        dawgie.schedule({a["kind"]}, '
                        f'{base}.{pk}.{_loc(spec, i)}(), {_moment_src(m)}),'
                    )
                for i, a in bad:
                    init.append(
                        f'        dawgie.EVENT(dawgie.ALG_REF({a["kind"]}, '
                        f'{base}.{pk}.{_loc(spec, i)}()), '
                        + _BAD_MOMENT[v['kind']] + '),'
                    )
                init.append('    ]')
                init.append('')
        else:
            for kind in (spec.get('own') or [[]] * len(spec['pkgs']))[pi]:
                init += [
                    '',
                    f'def {kind}({_SIG[kind]}):',
                    f'    import {base}.{pk}.bot as bot',
                    (f'    import {base}.{pk}.extra as extra' if extra
                     else ''),
                    '',
                    '    return dawgie.base.{}({}, [{}])'.format(
                        _BOT_CLASS[kind], _ARGS[kind],
                        ', '.join(_loc(spec, i) for i, a in mine
                                  if a['kind'] == kind)),
                    '',
                ]
            for ph in spec['placeholders'][pi]:
                sig = _SIG.get(ph, '')
                init += [
                    '',
                    f'def {ph}({sig}) -> {_PLACEHOLDER_RET[ph]}:',
                    "    raise NotImplementedError('placeholder')",
                    '',
                ]
        bot += _BOGUS
        files[f'{bdir}/{pk}/__init__.py'] = '\n'.join(init) + '\n'
        files[f'{bdir}/{pk}/bot.py'] = '\n'.join(bot) + '\n'
        if extra:
            files[f'{bdir}/{pk}/extra.py'] = '\n'.join([
                'import datetime', 'import dawgie', 'import dawgie.base',
                f'import {base}',
                f'from {base}.{pk}.bot import *  # noqa: F401,F403',
                f'from {base}.{pk}.bot import _run', ''] + extra) + '\n'
    return files


_BAD_MOMENT = {
    'moment-two': 'dawgie.MOMENT(None, None, 3, 2, datetime.time(1, 2, 3))',
    'moment-none': 'dawgie.MOMENT(None, None, None, None, '
                   'datetime.time(1, 2, 3))',
    'moment-no-time': 'dawgie.MOMENT(None, None, 3, None, None)',
    'moment-dom-type': "dawgie.MOMENT(None, None, '3', None, "
                       'datetime.time(1, 2, 3))',
}
_BAD_REF = {
    'ref-feat-type': 'dawgie.V_REF({fac}, {impl}, {item}, 5)',
    'ref-item-type': "dawgie.SV_REF({fac}, {impl}, 'not a state vector')",
    'ref-impl-type': "dawgie.SV_REF({fac}, 'not an algorithm', {item})",
    'ref-factory-type': "dawgie.SV_REF('not a factory', {impl}, {item})",
    'ref-missing-value': "dawgie.V_REF({fac}, {impl}, {item}, 'no_such_value')",
    'ref-missing-sv': 'dawgie.SV_REF({fac}, {impl}, SV_bogus())',
    'ref-missing-alg': 'dawgie.SV_REF({fac}, Alg_bogus(), SV_bogus())',
}
_BOGUS = [
    '',
    'class SV_scratch(dawgie.StateVector):',
    '    def __init__(self):',
    '        dawgie.StateVector.__init__(self)',
    '        self._version_ = dawgie.VERSION(1, 0, 0)',
    '',
    '    def name(self):',
    "        return 'scratch'",
    '',
    '    def view(self, caller, visitor):',
    '        return',
    '',
    '',
    'class V_bogus(dawgie.Value):',
    '    def __init__(self):',
    '        dawgie.Value.__init__(self)',
    '        self._version_ = dawgie.VERSION(1, 0, 0)',
    '',
    '    def features(self):',
    '        return []',
    '',
    '',
    'class SV_bogus(dawgie.StateVector):',
    '    def __init__(self):',
    '        dawgie.StateVector.__init__(self)',
    '        self._version_ = dawgie.VERSION(1, 0, 0)',
    "        self['q'] = V_bogus()",
    '',
    '    def name(self):',
    "        return 'zz'",
    '',
    '    def view(self, caller, visitor):',
    '        return',
    '',
    '',
    'class Alg_bogus(dawgie.Algorithm):',
    '    DAWGIE_IGNORE = True',
    '',
    '    def __init__(self):',
    '        self._version_ = dawgie.VERSION(1, 0, 0)',
    '',
    '    def name(self):',
    "        return 'zz9'",
    '',
    '    def previous(self):',
    '        return []',
    '',
    '    def feedback(self):',
    '        return []',
    '',
    '    def state_vectors(self):',
    '        return [SV_bogus()]',
    '',
    '    def run(self, ds, ps):',
    '        return',
    '',
]


def violations(spec):
    '''every single-rule violation applicable to the spec, at every
    position (C16); each is a dict understood by ``sources``'''
    out = []
    legacy = spec['style'] == 'legacy'
    for i, a in enumerate(spec['algs']):
        out += [{'kind': k, 'alg': i} for k in
                ('dotted-alg', 'no-svs', 'no-name', 'no-svs-method')]
        if legacy:
            out.append({'kind': 'alg-base', 'alg': i})
        for k in _BAD_MOMENT:
            out.append({'kind': k, 'alg': i})
        for j, sv in enumerate(a['svs']):
            out += [{'kind': k, 'alg': i, 'sv': j}
                    for k in ('dotted-sv', 'empty-sv', 'sv-base')]
            for k, _v in enumerate(sv['vals']):
                out += [{'kind': kk, 'alg': i, 'sv': j, 'val': k}
                        for kk in ('dotted-val', 'unpicklable', 'value-base',
                                   'value-ctor-arg')]
        for which, refs in (('_deps', a['inputs']), ('_fbs', a['feedback'])):
            for n, _r in enumerate(refs):
                for k in _BAD_REF:
                    for pos in ('after', 'before', 'replace'):
                        out.append({'kind': k, 'alg': i, 'which': which,
                                    'ref': n, 'pos': pos})
    if legacy:
        for pi, _pk in enumerate(spec['pkgs']):
            for kind in sorted({a['kind'] for a in spec['algs']
                                if a['pkg'] == pi}):
                out += [{'kind': k, 'pkg': pi, 'fkind': kind} for k in
                        ('factory-arity', 'factory-default',
                         'factory-annotation', 'bot-base')]
    return out


_SEQ = [0]


class Loaded:
    def __init__(self, spec, base, root, factories):
        self.spec = spec
        self.base = base
        self.root = root
        self.factories = factories
        self.ref = RefGraph(spec)


def write(spec, root, base, viol=None):
    for rel, src in sources(spec, base, viol).items():
        fn = os.path.join(root, rel)
        os.makedirs(os.path.dirname(fn), exist_ok=True)
        with open(fn, 'wt', encoding='utf-8') as f:
            f.write(src)


def packages_with_content(spec):
    return [
        pk
        for pi, pk in enumerate(spec['pkgs'])
        if any(a['pkg'] == pi for a in spec['algs'])
    ]


def prune(spec):
    '''drop packages without algorithms (the scanner rejects empty ones)'''
    return spec


@contextlib.contextmanager
def loaded(spec, scan=True, viol=None):
    '''write the engine, point dawgie.context at it, scan it; clean up after'''
    import dawgie.context
    import dawgie.pl.scan

    _SEQ[0] += 1
    base = f'vae{os.getpid()}x{_SEQ[0]}'
    if spec.get('base_depth', 1) == 2:
        base = f'vorg{os.getpid()}x{_SEQ[0]}.eng'
    bdir = base.replace('.', os.sep)
    root = world.fresh_dir('ae')
    # packages without any algorithm are not written at all
    keep = dict(spec)
    write(keep, root, base, viol)
    for pi, pk in enumerate(spec['pkgs']):
        if not any(a['pkg'] == pi for a in spec['algs']):
            world.rm(os.path.join(root, bdir, pk))
    sys.path.insert(0, root)
    old = (dawgie.context.ae_base_path, dawgie.context.ae_base_package)
    dawgie.context.ae_base_path = os.path.join(root, bdir)
    dawgie.context.ae_base_package = base
    try:
        facs = None
        if scan:
            with warnings.catch_warnings():
                warnings.simplefilter('ignore')
                facs = dawgie.pl.scan.for_factories(
                    dawgie.context.ae_base_path, base
                )
        yield Loaded(spec, base, root, facs)
    finally:
        dawgie.pl.scan.reset(base)
        top = base.split('.')[0]
        for k in [k for k in sys.modules
                  if k in (base, top) or k.startswith(base + '.')]:
            del sys.modules[k]
        if root in sys.path:
            sys.path.remove(root)
        dawgie.context.ae_base_path, dawgie.context.ae_base_package = old
        world.rm(root)
