#!/usr/bin/env python3
'''Regenerate /verif/MANIFEST.json from the table below and validate it.'''

import json
import os
import sys

HERE = os.path.dirname(os.path.dirname(os.path.abspath(__file__)))

ENGINES = {
    'pipeline-sim': ('vf/sim.py', 'real schedule+dag+farm over generated '
                     'engines, harness-owned workers, clock and replies'),
    'shelve-rig': ('vf/rig.py', 'real shelve backend in a private directory, '
                   'client/foreman hop in process'),
    'fsm-rig': ('vf/fsmrig.py', 'real pl.state.FSM (production mode) with '
                'harness-completed background steps and pollers'),
    'generators': ('vf/engines.py', 'engine-spec generator, materialiser and '
                   'reference dependency graph'),
    'standalone': ('vf/props', 'self-contained generators per property'),
}

# id -> (engine, category, technique, level text, level note)
CHECKS = {
    'C01': (
        'pipeline-sim', 'exploration',
        'Hypothesis-generated engines x operation histories on the real '
        'schedule+farm; invariant over the history with harness ground truth '
        'for "executing" and a reference ancestor closure',
        'Each generated history (requests, re-requests of executing units, '
        'version builds, ticks, worker joins, replies in any order with any '
        'outcome) runs the real scheduler and farm; at every release the '
        'reference ancestors are checked for pending work (node todo and '
        'view_todo) and executing work (released-and-unanswered, tracked by '
        'the harness, not by the scheduler). Bounded sampling.',
        'FSM stand-in (always active); stub database; <=6 algorithms, <=4 '
        'targets, <=60 operations.',
    ),
    'C02': (
        'pipeline-sim', 'exploration',
        'history invariant (completeness right after each report, '
        'justification flag per release) on generated engines and histories; '
        'end-to-end equivalence with a from-scratch evaluation on a real '
        'shelve store',
        'Part law: after each success report the dependents whose declared '
        'inputs meet the new values must be pending (both inclusions: nothing '
        'else may become pending), every release must be justified since the '
        'previous release of that unit, and a failure-free history drained to '
        'quiescence leaves no justified unit unreleased. Part e2e: task-only '
        'generated engines with executable algorithms (each output value is '
        'a hash of its name, the loaded contents of its declared inputs and '
        'an epoch) on a real shelve store; root re-runs with epoch bumps are '
        'interleaved with real executions through worker.Context.run in '
        'generated order (novelty comes from the real content-addressed '
        'store); at quiescence the latest stored content of every value on '
        'every target must equal a from-scratch evaluation of the reference '
        'graph under the final epochs.',
        'declared inputs from the reference graph; failure-free histories for '
        'the end-of-history clause; stub database in part law; e2e without '
        'analyses / regressions / feedback; two known findings listed.',
    ),
    'C03': (
        'pipeline-sim', 'exploration',
        'history invariants on generated engines and histories with '
        'pass-through spies on complete/update/purge/chronicle.append and '
        'decoded worker transports',
        'After every operation: no two released-and-unanswered units share '
        '(algorithm, target); task frames on worker transports = handed '
        'units, the rest is still in farm._cluster; crew() busy list = '
        'handed-and-unanswered; each reply causes exactly one complete, one '
        'chronicle append and one update (success) or purge (otherwise).',
        'workers answer only what they were handed, once; FSM stand-in.',
    ),
    'C04': (
        'pipeline-sim', 'exploration',
        'history invariants + bounded-liveness drain on generated engines '
        'and histories (failures anywhere, empty target lists, analyses '
        'below tasks)',
        'Idle (nothing pending, nothing unanswered) must show an empty '
        'queue/todo/doing/crew; a pending unit whose reference ancestors are '
        'idle for it must be released by the next dispatch; after the '
        'history a drain loop with workers that always answer (every third '
        'answer a failure) must quiesce within 2*(algs*(targets+1))+5 rounds.',
        'liveness only in this bounded, harness-scheduled form.',
    ),
    'C05': (
        'pipeline-sim', 'fault_enumeration',
        'before/after frame condition on every node for generated failure '
        'points; every in-flight unit x {failure, invalid} injected at the '
        'end of generated prefixes',
        'For each non-success reply the node snapshots before/after are '
        'compared: target withdrawn from every reference descendant, other '
        'targets and unrelated algorithms untouched, no pending set grows, '
        'update not called, exactly one chronicle entry with the outcome. '
        'Part enumerate re-executes a generated prefix once per in-flight '
        'unit and outcome.',
        'nothing asserted about a dependent that is executing the target or '
        'about the failing job\'s own pending set.',
    ),
    'C09': (
        'generators', 'exploration',
        'Hypothesis-generated engine packages (both factory styles, on disk, '
        'scanned by pl.scan) vs an independent reference dependency graph',
        'Every generated acyclic engine is materialised as a Python package, '
        'scanned by the real dawgie.pl.scan and turned into a '
        'dag.Construct; node sets, edge sets at algorithm / state-vector / '
        'value / task granularity, ancestor closure, parents, feedback '
        'attributes and the feedback map are compared (both inclusions) '
        'with a reference graph computed from the spec alone.',
        'bounded sizes (<=8 algorithms, <=4 packages); dot rendering '
        'stubbed; no self-references.',
    ),
    'C15': (
        'generators', 'exploration',
        'exhaustive enumeration of version pairs on a grid + Hypothesis big '
        'ints vs tuple order; generated engines x persisted-version tables '
        'vs reference rescheduling set (stub tables and real shelve round '
        'trip)',
        'The comparison part enumerates all 15 625 ordered pairs over '
        '{0,1,2,9,10}^3 (exhaustive for that grid) and random large triples; '
        'the build part compares the pending set after schedule.build with '
        'the set computed from the spec and the chosen bumps, both '
        'inclusions, with persisted tables supplied directly and through a '
        'real shelve store (version.record of the old engine, db.versions).',
        'non-negative int components; shelve/stub backends only.',
    ),
    'C17': (
        'shelve-rig', 'exploration',
        'Hypothesis-generated stores and requests vs brute-force filter; '
        'metamorphic page/slice relation; denotation round-trip of run-ID '
        'normalisation',
        'Random stores (prefix-family names, two versions, run IDs 0..9) and '
        'requests with every constraint combination are answered by the real '
        'shelve SearchImplementation and compared with a brute-force filter '
        'of the entries the harness inserted; pages are compared with slices '
        'of the full answer and concatenated; _scrub is checked to preserve '
        'the denoted run-ID set. Sampling, not proof: bounded sizes.',
        'shelve backend only; -1 ("latest") excluded; harness inserts prime '
        'entries through util.append + the prime table directly.',
    ),
    'C18': (
        'standalone', 'exploration',
        'Hypothesis-generated completion instants and windows vs brute-force '
        'filter of everything appended; journal files re-read independently',
        'Entries at generated instants (day pool around month/year/leap '
        'boundaries x any time of day) are appended through chronicle.append '
        'and schedule.complete under a harness clock; find() is compared '
        'with a brute-force window filter (exact for after/before windows, '
        'validity form for truncation) and the journal files are re-read '
        'with plain json for the lost/duplicated-entry clause. Part pipeline '
        'runs simulator histories on the real schedule+farm and requires '
        'exactly one journal entry per delivered reply.',
        'UTC-aware bounds; after+limit without before only weakly checked '
        '(unspecified by the property).',
    ),
    'C20': (
        'pipeline-sim', 'exploration',
        'exhaustive calendar grid + Hypothesis instants for schedule._delay '
        'vs day-by-day reference arithmetic; generated engines with timer '
        'events run on a harness-owned reactor clock, oracle over the log of '
        'firings',
        'Part grid enumerates dom 1..31 and dow 0..6 x times of day x the '
        'days of 2023-2028 (quick: around month ends) x 3 instants per day '
        'and checks that _delay does not raise, designates a moment matching '
        'the specification, not later than the next matching moment and not '
        'older than the latest one; part random adds instants with '
        'microseconds 2000-2100, date and boot events. Part history runs '
        'periodics/defer/dispatch for generated engines with events over up '
        'to ten weeks of harness time: each firing queues exactly the known '
        'targets (__all__ for analyses) and lies within [M-301 s, M+1 d] of '
        'a matching moment M, boot events fire at boot and once, every '
        'matching moment while up has a firing, the queue holds a node once.',
        'recurrence after the first firing is a listed known finding; '
        'liveness only in bounded, harness-scheduled form.',
    ),
    'C19': (
        'standalone', 'exploration',
        'Hypothesis-generated site trees (roots, symlinks, look-alike '
        'siblings, marked secrets outside) x request paths from a segment '
        'grammar and aimed at each secret, oracle: no marker of an outside '
        'file in any response; exhaustive endpoint x method x certificate x '
        'clients x access-hook matrix with spy handlers',
        'Part static drives fe._static and StaticContent.render_GET on a '
        'generated site (7 root placements incl. nested roots and look-alike '
        'sibling names; optional directories, index pages, file and '
        'directory symlinks to inside and outside, index.html links leaving '
        'the root) with 1-10 request paths per site; a response containing '
        'the unique marker of a file whose real path is outside both roots '
        'is a violation. Part endpoints walks the real route tree '
        '(fe.root()), replaces every handler by a spy and enumerates all '
        'registered endpoints x GET/POST/PUT/DELETE x {no cert, cert} x '
        '{clients configured or not} x 11 hooks (default, constant, six '
        'exception types, missing module, missing attribute): a handler runs '
        'only after security.sanctioned returned True for its URI, never for '
        'run/reset/submit/snapshot without a certificate when clients are '
        'configured, never when the hook fails.',
        'URI is passed undecoded as twisted does; handlers never executed; '
        'stand-in certificate object.',
    ),
    'C13': (
        'shelve-rig', 'fault_enumeration',
        'Hypothesis-generated words over acquire/advance-clock/release/'
        'disconnect for up to 5 real comms.Worker connections on a harness '
        'clock, invariants after every step + bounded drain; a disconnect '
        'injected at every position of generated words for every client; '
        'the real client functions comms.acquire/release over an in-process '
        'socket',
        'Real comms.Worker protocol objects per client on recording '
        'transports; LoopingCall polls and callLater timers run on a '
        'task.Clock the harness advances, so the harness owns the '
        'interleaving. After every operation: at most one connection owns '
        'the lock and at most one client has been told it holds; a client is '
        'told only when the bit is set and its connection owns it; the bit '
        'is never set without a live owner (covers holder and waiter death); '
        'release answers True exactly to the holder and frees the bit; a '
        'poll of a live waiter while the lock is free grants; final drain: '
        'holders release or die in turn and every live waiter is granted '
        'within one poll period per waiter. Part crash enumerates a drop of '
        'every client after every prefix of generated words. Part client '
        'runs comms.acquire()/release() themselves and checks they return '
        'only with the lock / free it.',
        'callbacks serialised on the reactor thread as in production; '
        'liveness in bounded form only.',
    ),
    'C14': (
        'standalone', 'exploration',
        'differential: Hypothesis-generated message sequences x chunkings x '
        'connection interleavings on the real Hand / comms.Worker / LogSink '
        'vs whole-message delivery; every single split and every pair of '
        'splits near frame boundaries of generated streams; generated '
        'handshake transcripts (signature, magic, length, echo knobs, glued '
        'application bytes) through the real TwistedWrapper',
        'Recorders replace the application sinks (Hand._process, Worker.do, '
        'the log handler); the recorded sequence must equal the sequence '
        'sent for every chunking, for 1-byte chunks, and for 2-3 connections '
        'whose chunks interleave mid-frame (part chunks); part splits is '
        'exhaustive over single split positions and over pairs within 6 '
        'bytes of a boundary for each generated stream; part handshake runs '
        'the legacy handshake with a stand-in PGP object: nothing recorded '
        'before the final packet verified, glued bytes delivered in order '
        'after a valid handshake, any invalid element (bad signature, wrong '
        'magic, wrong length, wrong or replayed echo) closes with nothing '
        'recorded; part receive checks message.send/receive over a socket '
        'that returns 1..64 bytes per recv.',
        'GnuPG and TLS themselves are below the seam; transport contract '
        '"nothing delivered after loseConnection" honoured by the harness.',
    ),
    'C06': (
        'shelve-rig', 'exploration',
        'model-based: Hypothesis-generated histories (update, load, version '
        'bump, remove, add target, close/reopen) on a real shelve store vs a '
        'dictionary keyed by the full versioned identity + target + run',
        'Every Dataset.load() is compared value by value with the harness '
        'model: the content stored for the requested run when present, else '
        'that of the highest run of exactly that identity (task, algorithm, '
        'state vector, value, each with its version) and target, else the '
        'untouched prototype object; the version seal of the loaded value '
        'must be the identity\'s; after every operation the prime table is '
        'compared with the model (nothing lost, nothing extra).',
        'shelve backend only (no PostgreSQL server offline); prefix-free '
        'names; contents are generated picklable trees.',
    ),
    'C07': (
        'shelve-rig', 'fault_enumeration',
        'model-based histories with repeating contents, removals, the purge '
        'tool and reopen on a real shelve store, every blob re-hashed with '
        'hashlib; crash injected at every instrumented step of an update '
        '(exhaustive per generated prefix), restart, check, retry',
        'Part history: after every update the reported new-value flags must '
        'equal "blob name not in the store directory before"; every file in '
        'the store is named md5_sha1 of its own bytes (recomputed), no two '
        'files have equal bytes, every prime entry names an existing file, '
        'the blob named by the catalogue is the digest of the pickled value '
        'the harness computes itself. Part crash: for a generated prefix and '
        'one further update the run is cut at each of the steps mkstemp, '
        'pickle.dump (before/after), chmod, md5sum, sha1sum, exists, '
        'move/unlink (before/after), reply (before/after) in turn - every '
        'occurrence, 10-60 per update - followed by restart, invariant '
        'check, retry of the update, invariant check.',
        'crashes at step boundaries with completed steps durable; staging '
        'and store on one file system; digest binaries replaced by hashlib '
        'in 7 of 8 stores.',
    ),
    'C08': (
        'shelve-rig', 'exploration',
        'model-based histories over prefix-family names (registrations, '
        'updates, removals, reset, trace, next, reopen) on a real shelve '
        'store; table invariants after every step; metamorphic exactness: '
        'the prime table must equal the harness model after every removal; '
        'reset/trace compared with exact-name answers from the model',
        'After every operation: each table\'s ids are exactly 0..n-1, the '
        'index list is the inverse of the table, no id ever changes (also '
        'across reopen), every alg/state/value name carries a resolving '
        'parent id, every prime key resolves through value -> state vector '
        '-> algorithm -> task, next() exceeds every stored run ID (run IDs '
        'of different decimal width included); remove deletes exactly the '
        'model\'s entries of that exact name; reset yields a version recorded '
        'for exactly that algorithm/run/target; trace equals the latest run '
        'of the highest registered version of exactly that task.algorithm. '
        'Part wide drives ids past 10 first (ids whose decimal text begins '
        'with another id).',
        'shelve backend only; reset/trace under their documented '
        'preconditions.',
    ),
    'C16': (
        'generators', 'exploration',
        'Hypothesis-generated engine packages on disk (both factory styles, '
        'all mixes of factory kinds) through the real compliant._scan / '
        '_verify (command line sampled) and the real scan -> Construct -> '
        'build -> periodics -> dispatch chain; single-rule violations from a '
        'catalogue injected at generated positions, and exhaustively at '
        'every position for small packages',
        'Part accept: every generated rule-abiding package (packages '
        'offering only regressions, only analyses, only tasks, any mix, with '
        'and without events; references at three levels; feedback) must be '
        'accepted, and then builds a task graph containing every declared '
        'algorithm, schedules, registers its timer events and drains a full '
        'run without an exception. Part reject: the same packages with one '
        'violation of one rule (27 kinds x positions; bad references placed '
        'before, after or instead of a valid one) must be rejected (False or '
        'an exception, i.e. a non-zero exit). Part rejectall enumerates all '
        'applicable violations of a generated small package (50-200 each).',
        'base-class / factory-signature violations in the legacy style '
        'only; CLI run for 1 accepted package in 40.',
    ),
    'C10': (
        'fsm-rig', 'exploration',
        'exhaustive enumeration of event words up to a bound + Hypothesis '
        'words on the real FSM with harness-completed background steps; '
        'oracle: arcs parsed from state.dot and a hand-written table of the '
        'documented arcs, invariants after every event',
        'The real FSM runs in production mode on a real shelve store and a '
        'generated engine; deferToThread is replaced by a queue the harness '
        'completes in any order. Events: boot, complete step j, git, staged, '
        'archive (farm.dispatch with new data), update, submissions through '
        'the real fe.submit / fe.api.submit Process (accepted, failing in '
        'step 2, refused), and every trigger that state.dot does not allow '
        'in the current state. Checked after every event: each state change '
        'is a documented arc; archiving returns to where it came from; a '
        'rejected trigger and a refused submission change nothing (state, '
        'transitioning, prior, outstanding steps, ARCHIVE, priority, waiter '
        'flags); is_pipeline_active only at rest in running with no step '
        'outstanding; no background step raises; after completing all steps '
        'the machine rests in running or gitting; each update performs '
        'exactly one reload/refresh. Part bounded is exhaustive over all '
        'words of length <= 3 (quick) / 5 (thorough) of a 10-letter alphabet.',
        'step callbacks serialised (no OS-thread races); GnuPG/GUI/log '
        'server/git/module reload stubbed.',
    ),
    'C12': (
        'fsm-rig', 'exploration',
        'Hypothesis-generated words (random, and built from reload cycles) '
        'of submissions, single-stepped pollers, crew/executing/queue '
        'progress, idle archives and step completions on the real FSM; spy '
        'on update_trigger judged against a harness model of the strongest '
        'priority requested since the last reload; bounded-liveness drain',
        'Submissions go through the real fe.submit.Process (refusal in '
        'step_1, crossroads in step_3) or straight to set_submit_info + '
        'submit_crossroads; the real is_crew_done / is_doing_done / '
        'is_todo_done loops are evaluated one iteration per poll event; '
        'progress is applied to farm._busy and schedule.que. At every '
        'accepted update_trigger the condition of the strongest priority '
        'accepted since the last reload must hold (NOW: none; CREW: no busy '
        'worker; DOING: view_doing() empty; TODO: queue empty), there was a '
        'submission, and it is the only trigger of the cycle; an '
        'update_trigger that raises MachineError is a violation; a refused '
        'submission changes nothing; at the end everything is made idle, '
        'all pollers are polled and all steps completed (3 rounds) and no '
        'accepted submission may remain without its reload. Several reload '
        'cycles per word, priorities re-used after being overtaken.',
        'pollers and callbacks serialised on the harness thread; the merge / '
        'compliance step of a submission is a stub.',
    ),
    'C11': (
        'pipeline-sim', 'exploration',
        'Hypothesis-generated engines x histories of worker registrations '
        '(current and look-alike stale revisions), disconnects, status '
        'polls, reloads, activity changes, archives and dispatch ticks on '
        'the real schedule+farm; oracle from decoded worker transports and '
        'a pass-through spy on Hand.do',
        'After every operation: each task hand-out happened while the '
        'pipeline was active, to a connection that registered with exactly '
        'the revision the pipeline runs, was still open and had no task '
        'before; nothing is written after a disconnect; a tick while not '
        'active releases nothing and changes no queue; stale registrations '
        '(empty, prefix of the current revision, current+"0", upper-case, '
        'previous) are aborted, closed and not listed; status polls are '
        'answered proceed only for the current revision while active; a '
        'reload tells every waiting worker to leave and keeps none; the '
        'farm\'s idle list equals the registered, connected, untasked '
        'workers of the current revision; released = handed + queued; each '
        'task message carries the unit\'s job, target (None for analyses), '
        'factory and run ID: 0 for regressions, the run ID of the triggering '
        'event when it carried one, else one drawn by db.next() in that '
        'tick, larger than every run ID seen before; next() is called once '
        'per released job whose event carried none, never otherwise.',
        'life-cycle stand-in (goes inactive on archiving_trigger); stub '
        'database.',
    ),
}

# parts added after the first build (appended to the level text)
EXTRA = {
    'C01': ' Part timers: the same with timer events of the generated '
           'engines coming due on a harness clock (schedule.periodics / defer).',
    'C02': ' Part timers: the law with timer events as a further source of '
           'justified runs.',
    'C03': ' A success report must also leave every dependent that declares '
           'one of its new values pending (propagation); part timers adds '
           'timer events.',
    'C04': ' Part timers: timer events (incl. with no target known); part '
           'faults: db.next() fails once during a dispatch and the farm must '
           'recover; part waiters: the real poll loops of the queue-empty / '
           'nothing-executing / crew-idle waiters run on single-stepped '
           'threads started mid-history and must return at quiescence.',
    'C05': ' Part cluster: the replies come from real workers '
           '(worker.cluster.execute -> Context.run -> Task/Analysis/Regress.do '
           'on a real shelve store; the algorithm stores, raises, or raises '
           'NoValidOutputDataError).',
    'C06': ' Loaded values are scribbled on by the harness (a caller may '
           'refine what it was given in place); no later load may see that.',
    'C08': ' A registration during which one catalogue write fails (disk '
           'full) and is retried must leave the tables consistent.',
    'C10': ' Further events: guarded (archiving/loading trigger while the '
           'reload step holds the transitioning guard), work (a real '
           'execution that stores metrics, so introspection has data and the '
           'resources diary fills), part cycles (2-4 complete update cycles).',
    'C12': ' Pollers run on real, single-stepped threads (their local state '
           'survives between polls); further events: reset (fe.api.cmd_reset, '
           'a NOW request when active, refused without effect otherwise) and '
           'submissions failing in step 2 (must leave no trace).',
    'C15': ' In the store part a later generation may be recorded after the '
           'one in use (several persisted versions per element).',
    'C17': ' Part api: the same questions through fe.api.database.search '
           'with URL-style arguments, asked again after more matching '
           'entries arrived under old run IDs.',
    'C18': ' Part api: fe.api.schedule.succeeded / failed with ISO-string '
           'bounds (also exactly equal to completion times) against the '
           'brute-force window.',
    'C20': ' Part accepted: candidate moments, well-formed or not, go '
           'through the real compliant.rule_10 as the events() of a package '
           'on disk; whatever it accepts must be computable by _delay.',
}

# generator / oracle extensions of the third round of seeded changes
ROUND3 = {
    'C01': ' Worker messages reach the farm in generated piece sizes.',
    'C02': ' Part faults: a dispatch may lose its run-ID request once '
           '(db.next() fault). End-to-end part: an algorithm may file its '
           'result under a sub-target (Dataset.retarget); everything '
           'downstream must then exist for the sub-target as a from-scratch '
           'evaluation gives it.',
    'C03': ' Part faults: db.next() fails once during a dispatch; what the '
           'scheduler counts as executing must be handed, queued or held by '
           'the farm for its retry. Worker messages reach the farm in '
           'generated piece sizes (1 byte .. one segment).',
    'C04': ' Algorithms may override where() (cloud / cluster / auto) with no '
           'cloud agency configured.',
    'C05': ' The worker may also end with SystemExit / KeyboardInterrupt '
           'inside the algorithm (outcome 3).',
    'C06': ' Part held: a dataset is connected once and loaded repeatedly '
           'while other datasets store for the same target and algorithm.',
    'C08': ' Removal through the worm tool (dawgie.db.tools.worm.consume) '
           'with run ID 0 and partially given names.',
    'C09': ' Part layout: class-scanned packages that bring their own '
           'factory function, packages that say DAWGIE_IGNORE = False, and '
           'engines whose base package is nested (org.engine).',
    'C10': ' The reload step runs the real RollbackImporter over the '
           'generated engine; event newrev (a new revision of the engine '
           'source is on disk before the reload); submissions that are '
           'already applied.',
    'C12': ' Requests whose client has gone away (finish() raises) must not '
           'disturb the scheduling of the update.',
    'C13': ' Client labels are generated (unique, shared, empty); part '
           'client also runs a database copy (Worker._do_copy: acquire, '
           'close + reopen the database, release) against queued waiters, '
           'with the holder letting go at a generated phase of the poll '
           'period.',
    'C15': ' Algorithms may list a state vector that is empty until run; '
           'what build() scheduled is drained batch by batch '
           '(next_job_batch / complete) and the units handed out are '
           'compared with the expected set.',
    'C16': ' Packages may say DAWGIE_IGNORE = False or bring their own '
           'factory; part cli: python -m dawgie.tools.compliant judges the '
           'tree it is pointed at while another copy of the same package '
           '(compliant or not) is importable from the spawning environment.',
    'C18': ' Part append injects one transient OSError into an open() inside '
           'an append; the caller retries and nothing may be lost.',
    'C19': ' Static part: public files are replaced by links leading outside '
           'between requests and every earlier request is repeated; '
           'endpoints part: the client list is also loaded from real PEM '
           'files by _tls_initialize (valid, all expired, mixed).',
    'C20': ' History part: the algorithm engine is reloaded (schedule.build) '
           'between events; a boot event fires once per process.',
}

# fourth round
ROUND4 = {
    'C01': ' Parts faults / retry: run-ID requests of the first to third job '
           'of a batch fail once, upstream algorithms are requested before '
           'the farm retries; held units are judged when the scheduler '
           'released them.',
    'C02': ' Part overtake: scripted skeleton in which a unit is queued '
           'again by a newer upstream report while in flight and then '
           'reports new values; algorithms may read back their own output.',
    'C04': ' db.targets() may fail once while the farm handles a reply; '
           'algorithms may read back their own output.',
    'C05': ' Target names include one that is a substring of the all-targets '
           'marker and one with a sub-target suffix.',
    'C06': ' Value classes declare their versions like a real engine (one '
           'class per identity, optional inheritance); payloads above 64 KiB.',
    'C07': ' Crash steps include non-atomic copies; one round trip between '
           'worker and database server may lose its request or its reply.',
    'C08': ' Names are shared across catalogue levels.',
    'C10': ' Events status (the farm answers a busy worker in every '
           'life-cycle state) and reset (fe.api.cmd_reset).',
    'C11': ' Part runid: the real shelve next() behind farm.rerunid with '
           'stored run IDs of one to four digits.',
    'C13': ' Requests arrive in two segments, clients die mid-request, the '
           'waiters poll while the copy is under way.',
    'C14': ' The database client (Connector.__do) receives its replies in '
           'generated piece sizes.',
    'C15': ' One catalogue write fails and is retried while versions are '
           'recorded.',
    'C16': ' The graph the scheduler built for an accepted package is '
           'compared with the declarations.',
    'C18': ' The same question is asked again after the statistics endpoint '
           'and a scribbling caller have read the history.',
    'C19': ' Requests are aimed through linked directories.',
    'C20': ' The candidate moment sits among well-formed events of one '
           'package; two classes of one name in two modules of a task.',
}

# fifth round
ROUND5 = {
    'C01': ' Part cluster: replies produced by real workers '
           '(worker.cluster.execute).',
    'C04': ' The journal write may fail once while a reply is handled.',
    'C06': ' One catalogue write may fail during an update (run again); an '
           'entry whose content another entry shares is removed and the '
           'other one loaded.',
    'C07': ' The move into the store may fail once (ENOSPC); payloads above '
           'one MiB.',
    'C08': ' The process fills another database of the same table sizes and '
           'comes back (DBI is a process-wide singleton).',
    'C10': ' reset also through the legacy /app endpoint.',
    'C13': ' Client part also runs Dataset.load / update with abort() '
           'turning true at a generated poll, and lets reopening fail once '
           'during the copy; a raising timed call is a failure.',
    'C15': ' Versions may be recorded through the worker path; an '
           'implementer that overrides the version accessors.',
    'C18': ' Bounds written with a UTC offset; completions appended between '
           'the two questions.',
}

# sixth round
ROUND6 = {
    'C13': ' A holder that released may linger: its connectionLost arrives at '
           'a generated later step (op lazy), also while another client '
           'holds.',
    'C03': ' After a failure reply the job of every in-flight unit that purge '
           'touched must still be queued.',
    'C20': ' Part grow: updates add modules to existing or new task packages '
           'and the pipeline loads again without scan.reset (the registry of '
           'per-task factories survives, as in FSM._pipeline); the timer '
           'table must equal the declared events after every load, and '
           'Factories.events() must be a function of the classes added.',
}

NOT_YET = 'check not built yet in this session (planned, see DESIGN.md section 4)'


def main():
    props = []
    with open(os.path.join(HERE, 'properties.jsonl'), encoding='utf-8') as f:
        for line in f:
            if line.strip():
                props.append(json.loads(line)['id'])
    checks = []
    for pid in props:
        if pid not in CHECKS:
            continue
        eng, cat, tech, text, note = CHECKS[pid]
        checks.append(
            {
                'property_id': pid,
                'quick_cmd': f'./check {pid} --tier quick',
                'thorough_cmd': f'./check {pid} --tier thorough',
                'evidence_file': f'evidence/{pid}.json',
                'replay_cmd_template': f'./check {pid} --replay {{path}}',
                'engine': eng,
                'level_claimed': {
                    'category': cat,
                    'text': (text + EXTRA.get(pid, '') + ROUND3.get(pid, '')
                             + ROUND4.get(pid, '') + ROUND5.get(pid, '')
                             + ROUND6.get(pid, '')),
                    'design_ref': f'DESIGN.md section 4, {pid}',
                },
                'level_note': note,
                'technique': tech,
            }
        )
    na = [
        {'property_id': pid, 'reason': NOT_YET}
        for pid in props
        if pid not in CHECKS
    ]
    used = sorted({c['engine'] for c in checks})
    manifest = {
        'version': 1,
        'setup_cmd': (
            '/venv/bin/python -c "import hypothesis" 2>/dev/null || '
            '/venv/bin/pip install -q --no-index --find-links '
            '/opt/veriftools/wheels hypothesis'
        ),
        'hooks': {
            'guard': 'DAWGIE_VERIF',
            'enable': 'no source hooks: checks substitute the environment '
            '(sockets, clock, threads, dot) from outside; PYTHONPATH='
            '/repo/Python selects the working tree',
            'baseline_off_cmd': 'cd /repo && /venv/bin/python -m pytest -ra '
            '-q -p no:cacheprovider --timeout=900 '
            '--continue-on-collection-errors',
            'source_commits': [],
            'add_only': True,
        },
        'engines': [
            {
                'name': n,
                'path': ENGINES[n][0],
                'kind_free_text': ENGINES[n][1],
                'serves_properties': [
                    c['property_id'] for c in checks if c['engine'] == n
                ],
            }
            for n in used
        ],
        'checks': checks,
        'notes': (
            'All checks are property-based tests / fuzzers over the real '
            'DAWGIE code imported from /repo/Python (the copy of dawgie '
            'installed in /venv is a different release and is never used). '
            'tools/repo_tests.sh runs the repository suite against the '
            'working tree. known_findings.json lists genuine defects.'
        ),
        'not_applicable': na,
    }
    with open(os.path.join(HERE, 'MANIFEST.json'), 'wt', encoding='utf-8') as f:
        json.dump(manifest, f, indent=1)
    try:
        import jsonschema

        with open('/root/.vp/MANIFEST.schema.json', encoding='utf-8') as f:
            jsonschema.validate(manifest, json.load(f))
        print('MANIFEST.json valid;', len(checks), 'checks,', len(na), 'n/a')
    except ImportError:
        print('jsonschema not available; wrote MANIFEST.json unvalidated')
    return 0


if __name__ == '__main__':
    sys.exit(main())
