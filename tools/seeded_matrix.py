#!/usr/bin/env python3
'''Re-run every seeded change under /verif/seeded against the current /repo
HEAD: does the patch still apply, does its demo still fail on the patched tree
and pass on /repo, and which registered check detects it (quick tier).
Writes seeded/RESULTS.json and seeded/RESULTS.md.

  tools/seeded_matrix.py [--jobs 4] [--tier quick] [name ...]

With names, only those are re-run and merged into the existing RESULTS.json.
'''
import json, os, subprocess, sys
from concurrent.futures import ThreadPoolExecutor

ROOT = '/verif/seeded'

def one(name, tier):
    d = os.path.join(ROOT, name)
    meta = json.load(open(os.path.join(d, 'meta.json')))
    checks = ','.join(sorted(meta.get('checks', {meta['property']: 0})))
    r = subprocess.run(['/verif/tools/seedtest.py', d, '--checks', checks,
                        '--tier', tier], capture_output=True, text=True)
    t = r.stdout
    try:
        res = json.loads(t[t.index('{'):])
    except ValueError:
        return name, {'error': (t + r.stderr)[-400:]}
    return name, {
        'property': meta['property'],
        'demo_clean': res['demo_clean'][0],
        'demo_patched': res['demo_patched'][0],
        'checks': {k: {'rc': v['rc'], 'first': v['lines'][:1]}
                   for k, v in res['checks'].items()},
    }

def main():
    args = sys.argv[1:]
    jobs, tier = 4, 'quick'
    if '--jobs' in args:
        i = args.index('--jobs'); jobs = int(args[i + 1]); del args[i:i + 2]
    if '--tier' in args:
        i = args.index('--tier'); tier = args[i + 1]; del args[i:i + 2]
    names = args or sorted(n for n in os.listdir(ROOT)
                           if os.path.isdir(os.path.join(ROOT, n)))
    with ThreadPoolExecutor(jobs) as ex:
        results = dict(ex.map(lambda n: one(n, tier), names))
    if args:
        # a partial run is merged into the existing table
        try:
            old = json.load(open(os.path.join(ROOT, 'RESULTS.json')))['results']
        except (OSError, ValueError, KeyError):
            old = {}
        old.update(results)
        results = {n: r for n, r in old.items()
                   if os.path.isdir(os.path.join(ROOT, n))}
    head = subprocess.run(['git', '-C', '/repo', 'rev-parse', '--short', 'HEAD'],
                          capture_output=True, text=True).stdout.strip()
    json.dump({'repo_head': head, 'tier': tier, 'results': results},
              open(os.path.join(ROOT, 'RESULTS.json'), 'w'), indent=1)
    lines = [f'# Seeded changes vs checks ({tier} tier, /repo HEAD {head})', '',
             '| change | property | demo clean/patched | detected by | first report |',
             '|---|---|---|---|---|']
    missed = 0
    for n in sorted(results):
        r = results[n]
        if 'error' in r:
            lines.append(f'| {n} | ? | error | - | {r["error"][-120:]} |'); missed += 1
            continue
        det = [k for k, v in r['checks'].items() if v['rc'] == 1]
        if not det:
            missed += 1
        first = ''
        for k in det[:1]:
            first = (r['checks'][k]['first'] or [''])[0][:110].replace('|', '/')
        lines.append(f'| {n} | {r["property"]} | {r["demo_clean"]}/{r["demo_patched"]} | '
                     f'{", ".join(det) or "MISSED"} | {first} |')
    lines += ['', f'{len(results) - missed} of {len(results)} detected.']
    open(os.path.join(ROOT, 'RESULTS.md'), 'w').write('\n'.join(lines) + '\n')
    print('\n'.join(lines[-3:]))
    return 0

if __name__ == '__main__':
    sys.exit(main())
