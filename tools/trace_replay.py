#!/usr/bin/env python3
'''Print a simulator replay step by step (todo / doing / queue after each op).
  tools/trace_replay.py <replay.json> [--from N]'''
import json, os, sys
sys.path[:0] = [os.environ.get('VERIF_REPO', '/repo') + '/Python', '/verif']
from vf import world
world.boot()
from vf import sim as simmod
rep = json.load(open(sys.argv[1]))
case = rep['case']
start = int(sys.argv[3]) if len(sys.argv) > 3 else 0
s = simmod.Sim(case['spec'], case['targets'], case.get('bumped', ()),
               auto_workers=case.get('workers', 0), timers=bool(case.get('timers')))
print('tags', s.ref.tag, 'feedbacks', {k: sorted(v) for k, v in s.ref.feedbacks.items()})
print('children', {k: sorted(v) for k, v in s.ref.children.items() if v})
for i, op in enumerate(case['ops']):
    ev = s.do(op)
    if i < start:
        continue
    line = f"{i} {ev['op']}"
    if 'released' in ev: line += f" released={ev['released']}"
    if 'unit' in ev: line += f" unit={ev['unit']} {ev.get('outcome')} new={sorted(ev['newset'])}"
    st = {t: (sorted(n.get('todo')), sorted(n.get('doing'))) for t, n in s.nodes.items() if n.get('todo') or n.get('doing')}
    print(line, '| state', st, '| que', [j.tag for j in s.sched.que], '| calls', [c[:4] for c in ev['calls'] if c[0] != 'put'], ev['errors'])
s.close()
