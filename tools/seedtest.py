#!/usr/bin/env python3
'''Run a seeded change (patch.diff + demo.py) against the checks.

  tools/seedtest.py <dir with patch.diff and demo.py> [--checks C01,C03]
                    [--tier quick] [--tests] [--keep]

Creates a scratch git worktree of /repo HEAD under /dev/shm, applies the
patch there, and reports
  demo_clean   exit status of demo.py on /repo (must be 0)
  demo_patched exit status of demo.py on the patched tree (must be 1)
  tests        (with --tests) the 59 baseline tests still pass on the patched tree
  checks       per check: exit status and the FAIL/VIOLATION lines
/repo, /verif/evidence and /verif/replays are not touched; the worktree is
removed afterwards.
'''
import argparse
import json
import os
import shutil
import subprocess
import sys
import tempfile
import xml.etree.ElementTree as ET

PY = '/venv/bin/python'


def run(cmd, env=None, cwd=None, timeout=3600):
    r = subprocess.run(cmd, env=env, cwd=cwd, capture_output=True, text=True,
                       timeout=timeout)
    return r.returncode, r.stdout + r.stderr


def demo(path, tree):
    env = dict(os.environ, PYTHONPATH=os.path.join(tree, 'Python'),
               PYTHONDONTWRITEBYTECODE='1', DAWGIE_TREE=tree)
    rc, out = run([PY, path], env=env, cwd='/', timeout=600)
    return rc, out[-600:]


def tests(tree):
    base = set(json.load(open('/root/.vp/BASELINE.json'))['stable_pass'])
    xml = os.path.join(tree, '.t.xml')
    env = dict(os.environ, PYTHONPATH=os.path.join(tree, 'Python'))
    for attempt in range(2):
        run([PY, '-m', 'pytest', '-q', '-p', 'no:cacheprovider',
             '--timeout=900', '--continue-on-collection-errors',
             f'--junitxml={xml}'], env=env, cwd=tree, timeout=1800)
        passed = set()
        for tc in ET.parse(xml).iter('testcase'):
            if not any(c.tag in ('failure', 'error', 'skipped') for c in tc):
                passed.add(tc.get('classname') + '::' + tc.get('name'))
        miss = sorted(base - passed)
        # tests that bind TCP ports are flaky when suites run concurrently
        if not miss:
            break
    return miss


def main():
    ap = argparse.ArgumentParser()
    ap.add_argument('dir')
    ap.add_argument('--checks', default='')
    ap.add_argument('--tier', default='quick')
    ap.add_argument('--tests', action='store_true')
    ap.add_argument('--seed', default='1')
    args = ap.parse_args()
    d = os.path.abspath(args.dir)
    base = '/dev/shm' if os.access('/dev/shm', os.W_OK) else tempfile.gettempdir()
    wt = tempfile.mkdtemp(prefix='dawgie-seed-', dir=base)
    os.rmdir(wt)
    res = {'dir': d}
    try:
        rc, out = run(['git', '-C', '/repo', 'worktree', 'add', '--detach', wt,
                       'HEAD'])
        if rc:
            print(out)
            return 2
        rc, out = run(['git', '-C', wt, 'apply', os.path.join(d, 'patch.diff')])
        if rc:
            rc, out = run(['git', '-C', wt, 'apply', '-3',
                           os.path.join(d, 'patch.diff')])
        res['apply'] = rc
        if rc:
            print('patch does not apply:', out)
            return 2
        res['demo_clean'] = demo(os.path.join(d, 'demo.py'), '/repo')
        res['demo_patched'] = demo(os.path.join(d, 'demo.py'), wt)
        if args.tests:
            res['tests_missing'] = tests(wt)
        res['checks'] = {}
        for pid in [c for c in args.checks.split(',') if c]:
            env = dict(os.environ, VERIF_REPO=wt, VERIF_SEED=args.seed,
                       VERIF_OUT=os.path.join(wt, '.verif-out'))
            rc, out = run(['/verif/check', pid, '--tier', args.tier], env=env)
            lines = [l[:300] for l in out.splitlines()
                     if l.startswith(('FAIL', 'VIOLATION', 'HARNESS'))]
            res['checks'][pid] = {'rc': rc, 'lines': lines[:6]}
            if rc == 2:
                res['checks'][pid]['tail'] = out[-1500:]
        print(json.dumps(res, indent=1))
        ok = res['demo_clean'][0] == 0 and res['demo_patched'][0] == 1
        return 0 if ok else 1
    finally:
        run(['git', '-C', '/repo', 'worktree', 'remove', '--force', wt])
        shutil.rmtree(wt, ignore_errors=True)


if __name__ == '__main__':
    sys.exit(main())
