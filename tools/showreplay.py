#!/usr/bin/env python3
'''print a replay compactly, and trace it through the simulator when it has ops'''
import json, sys
sys.path.insert(0, '/verif'); sys.path.insert(0, '/repo/Python')
d = json.load(open(sys.argv[1])); c = d['case']
print(d['property'], d['part'], d['bucket']); print(' ', d['detail'])
if isinstance(c, dict) and 'spec' in c:
    print(' algs', [(a['pkg'], a['kind'], a['name'], [(r['to'], r['level'], r.get('sv'), r.get('val')) for r in a['inputs']], a['feedback']) for a in c['spec']['algs']])
    print(' targets', c.get('targets'), 'bumped', c.get('bumped'), 'workers', c.get('workers'))
    print(' ops', c.get('ops'))
    if '--trace' in sys.argv:
        from vf import world, sim
        world.boot()
        def on(s, ev, out):
            print(ev['step'], ev['op'], ev.get('unit'), sorted(ev.get('newset', [])), [x for x in ev['calls']], ev['errors'], 'que', [j.tag for j in s.sched.que], {t: (sorted(a), sorted(b)) for t, (a, b, _) in ev['after'].items()})
        sim.run_history(c, on)
else:
    print(json.dumps(c)[:1500])
