#!/usr/bin/env python3
'''Sensitivity probe: apply one textual change to a scratch copy of
/repo/Python, run a check against the copy, report whether it fired.

  tools/mutant.py <ID> <file under Python/> <old> <new> [--tier quick]

The copy lives under /dev/shm (or $TMPDIR) and is removed afterwards; /repo,
/verif/evidence and /verif/replays are not touched.
'''
import os, shutil, subprocess, sys, tempfile

def main():
    pid, rel, old, new = sys.argv[1:5]
    tier = sys.argv[6] if len(sys.argv) > 6 and sys.argv[5] == '--tier' else 'quick'
    base = '/dev/shm' if os.access('/dev/shm', os.W_OK) else tempfile.gettempdir()
    d = tempfile.mkdtemp(prefix='dawgie-mut-', dir=base)
    try:
        shutil.copytree('/repo/Python', os.path.join(d, 'Python'),
                        ignore=shutil.ignore_patterns('__pycache__'))
        fn = os.path.join(d, 'Python', rel)
        s = open(fn).read()
        if s.count(old) != 1:
            print(f'pattern occurs {s.count(old)} times in {rel}'); return 3
        open(fn, 'w').write(s.replace(old, new))
        env = dict(os.environ, VERIF_REPO=d, VERIF_OUT=os.path.join(d, 'out'))
        r = subprocess.run(['/verif/check', pid, '--tier', tier], env=env,
                           capture_output=True, text=True)
        lines = [l for l in r.stdout.splitlines() if l.startswith(('FAIL', 'VIOLATION', 'HARNESS', pid))]
        print(f'rc={r.returncode}', *lines[:6], sep='\n  ')
        if r.returncode == 2:
            print(r.stdout[-1500:])
        return 0 if r.returncode == 1 else 1
    finally:
        shutil.rmtree(d, ignore_errors=True)

if __name__ == '__main__':
    sys.exit(main())
