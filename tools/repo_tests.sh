#!/bin/bash
# Run the repository's test suite against the WORKING TREE (/repo/Python first
# on sys.path; the pinned command imports the copy installed in /venv) and
# compare with the 59 stable tests of /root/.vp/BASELINE.json.
OUT=$(mktemp -d)
cd /repo && PYTHONPATH=/repo/Python timeout 1500 /venv/bin/python -m pytest -q -p no:cacheprovider \
  --timeout=900 --continue-on-collection-errors --junitxml=$OUT/t.xml > $OUT/t.log 2>&1
python3 - "$OUT/t.xml" <<'PY'
import json, sys, xml.etree.ElementTree as ET
base=set(json.load(open('/root/.vp/BASELINE.json'))['stable_pass'])
passed=set()
for tc in ET.parse(sys.argv[1]).iter('testcase'):
    name=tc.get('classname')+'::'+tc.get('name')
    if not any(c.tag in('failure','error','skipped') for c in tc): passed.add(name)
miss=sorted(base-passed)
print(len(passed),'passed; baseline tests now failing:',miss)
sys.exit(1 if miss else 0)
PY
rc=$?
rm -rf "$OUT"
exit $rc
