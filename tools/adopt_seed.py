#!/usr/bin/env python3
'''Adopt a confirmed seeded change into /verif/seeded/<name>/.

  tools/adopt_seed.py <src dir> <name> <property> [--checks C01,C03]

Runs tools/seedtest.py --tests on it (demo passes on /repo, fails on the
patched scratch worktree, the 59 baseline tests still pass there), runs the
given checks against the patched tree, and writes patch.diff, demo.py,
notes.md and meta.json.
'''
import json, os, shutil, subprocess, sys

def main():
    src, name, pid = sys.argv[1:4]
    checks = pid
    if '--checks' in sys.argv:
        checks = sys.argv[sys.argv.index('--checks') + 1]
    r = subprocess.run(['/verif/tools/seedtest.py', src, '--checks', checks,
                        '--tests'], capture_output=True, text=True)
    t = r.stdout
    try:
        res = json.loads(t[t.index('{'):])
    except ValueError:
        print('seedtest failed:', t[-2000:], r.stderr[-2000:]); return 2
    ok = (res['demo_clean'][0] == 0 and res['demo_patched'][0] == 1
          and not res['tests_missing'])
    if not ok:
        print('NOT CONFIRMED', json.dumps(res, indent=1)[:3000]); return 1
    dst = os.path.join('/verif/seeded', name)
    os.makedirs(dst, exist_ok=True)
    for f in ('patch.diff', 'demo.py', 'notes.md'):
        if os.path.isfile(os.path.join(src, f)):
            shutil.copy(os.path.join(src, f), os.path.join(dst, f))
    notes = ''
    if os.path.isfile(os.path.join(src, 'notes.md')):
        notes = open(os.path.join(src, 'notes.md')).read()
    meta = {
        'property': pid,
        'origin': 'independent sub-agent given only the property text and a '
                  'scratch worktree',
        'needs_to_manifest': notes[:1500],
        'confirmed': {
            'how': 'tools/seedtest.py --tests: scratch git worktree of /repo '
                   'HEAD + patch.diff; demo.py exit 0 on /repo, exit 1 on the '
                   'patched tree; the 59 baseline tests pass on the patched '
                   'tree (PYTHONPATH=<tree>/Python)',
            'demo_clean_rc': res['demo_clean'][0],
            'demo_patched_rc': res['demo_patched'][0],
            'baseline_tests_failing_with_patch': res['tests_missing'],
            'repo_head': subprocess.run(
                ['git', '-C', '/repo', 'rev-parse', '--short', 'HEAD'],
                capture_output=True, text=True).stdout.strip(),
        },
        'checks': {k: {'rc': v['rc'], 'detected': v['rc'] == 1,
                       'first': v['lines'][:1]}
                   for k, v in res['checks'].items()},
    }
    json.dump(meta, open(os.path.join(dst, 'meta.json'), 'w'), indent=1)
    print(name, 'adopted;', {k: v['rc'] for k, v in res['checks'].items()})
    return 0

if __name__ == '__main__':
    sys.exit(main())
